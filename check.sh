#!/bin/bash
# ./check.sh <property-id> <quick|thorough>   run one property monitor against /repo's current working tree
# ./check.sh replay <file>                     re-execute one recorded case
# ./check.sh build                             (re)build the framework only
#
# Every invocation rebuilds bin/vcheck (and bin/vcheck.race) from /verif and from
# /repo's *current working tree* with the hook tag `verif`; Go's build cache
# makes that a few seconds when nothing changed.
set -u
cd "$(dirname "$0")"
export GOFLAGS=-mod=mod GOPROXY=off GOSUMDB=off GOTOOLCHAIN=local
export VERIF_ROOT="$PWD"
mkdir -p bin work evidence replay

build() {
  # $1 = output, rest = extra flags; build to a private name, then rename atomically.
  # Normal build: hooks on (-tags verif). If /repo was edited so that the hook file no
  # longer compiles but the library itself does, fall back to a build without hooks:
  # every oracle still runs, only the amplification (poison, scramble, counters) is lost.
  local out=$1; shift
  local tmp="bin/.$(basename "$out").$$"
  if go build -tags verif "$@" -o "$tmp" ./cmd/vcheck 2>bin/build.$$.log; then
    rm -f bin/build.$$.log; mv -f "$tmp" "$out"; return 0
  fi
  echo "note: build with -tags verif failed, retrying without hooks:" >&2
  head -20 bin/build.$$.log >&2
  if go build "$@" -o "$tmp" ./cmd/vcheck 2>bin/build.$$.log; then
    rm -f bin/build.$$.log; mv -f "$tmp" "$out"; return 0
  fi
  echo "BUILD FAILED (the framework or /repo does not compile):" >&2
  cat bin/build.$$.log >&2
  rm -f "$tmp" bin/build.$$.log
  return 1
}

needs_race() {
  case "$1" in C04|C06) return 0;; esac
  return 1
}

cmd=${1:-}
case "$cmd" in
  build)
    build bin/vcheck || exit 2
    build bin/vcheck.race -race || exit 2
    exit 0;;
  replay)
    build bin/vcheck || exit 2
    build bin/vcheck.race -race || exit 2
    exec bin/vcheck replay "$2";;
  "")
    echo "usage: $0 <id> <quick|thorough> | replay <file> | build" >&2; exit 2;;
esac

id=$cmd
tier=${2:-${VERIF_TIER:-quick}}
build bin/vcheck || exit 2
if needs_race "$id"; then
  build bin/vcheck.race -race || exit 2
fi
exec bin/vcheck run "$id" "$tier"
