#!/bin/bash
# ./check.sh <property-id> <quick|thorough>   run one property monitor against /repo's current working tree
# ./check.sh replay <file>                     re-execute one recorded case
# ./check.sh build                             (re)build the framework only
#
# Every invocation rebuilds bin/vcheck (and bin/vcheck.race) from /verif and from
# /repo's *current working tree* with the hook tag `verif`; Go's build cache
# makes that a few seconds when nothing changed.
#
# Calibration only (never used by the registered commands): VERIF_REPO=<copy of the
# repository> checks that copy instead of /repo, VERIF_OUT=<dir> puts bin/ work/
# evidence/ replay/ there, so that several mutants can be examined in parallel
# without touching /repo or /verif.
set -u
SRC="$(cd "$(dirname "$0")" && pwd)"
cd "$SRC"
export GOFLAGS=-mod=mod GOPROXY=off GOSUMDB=off GOTOOLCHAIN=local
OUT="${VERIF_OUT:-$SRC}"
export VERIF_ROOT="$OUT"
export VERIF_REPO="${VERIF_REPO:-/repo}"
mkdir -p "$OUT/bin" "$OUT/work" "$OUT/evidence" "$OUT/replay"
if [ "$OUT" != "$SRC" ]; then cp -f "$SRC/KNOWN_FINDINGS.txt" "$OUT/KNOWN_FINDINGS.txt"; fi
MODFLAG=""
if [ "$VERIF_REPO" != "/repo" ]; then
  sed "s#=> /repo#=> $VERIF_REPO#" go.mod > "$OUT/alt.mod"; : > "$OUT/alt.sum"
  MODFLAG="-modfile=$OUT/alt.mod"
fi

GO=go
build() {
  # $1 = output, rest = extra flags; build to a private name, then rename atomically.
  # Normal build: hooks on (-tags verif). If /repo was edited so that the hook file no
  # longer compiles but the library itself does, fall back to a build without hooks:
  # every oracle still runs, only the amplification (poison, scramble, counters) is lost.
  local out=$1; shift
  local tmp="$OUT/bin/.$(basename "$out").$$"
  local log="$OUT/bin/build.$$.log"
  if $GO build $MODFLAG -tags verif "$@" -o "$tmp" ./cmd/vcheck 2>"$log"; then
    rm -f "$log"; mv -f "$tmp" "$out"; return 0
  fi
  echo "note: build with -tags verif failed, retrying without hooks:" >&2
  head -20 "$log" >&2
  if $GO build $MODFLAG "$@" -o "$tmp" ./cmd/vcheck 2>"$log"; then
    rm -f "$log"; mv -f "$tmp" "$out"; return 0
  fi
  echo "BUILD FAILED (the framework or the repository does not compile):" >&2
  cat "$log" >&2
  rm -f "$tmp" "$log"
  return 1
}

needs_race() {
  case "$1" in C04|C06) return 0;; esac
  return 1
}

cmd=${1:-}
case "$cmd" in
  build)
    build "$OUT/bin/vcheck" || exit 2
    build "$OUT/bin/vcheck.race" -race || exit 2
    exit 0;;
  replay)
    build "$OUT/bin/vcheck" || exit 2
    build "$OUT/bin/vcheck.race" -race || exit 2
    exec "$OUT/bin/vcheck" replay "$2";;
  "")
    echo "usage: $0 <id> <quick|thorough> | replay <file> | build" >&2; exit 2;;
esac

id=$cmd
tier=${2:-${VERIF_TIER:-quick}}
build "$OUT/bin/vcheck" || exit 2
if needs_race "$id"; then
  build "$OUT/bin/vcheck.race" -race || exit 2
fi
rm -f "$OUT/bin/vcheck.alt"
if [ "$id" = C07 ] && [ "$tier" = thorough ] && command -v go1.26 >/dev/null 2>&1; then
  # second configuration for the order property: a toolchain with a different map implementation
  # (Swiss tables, different iteration order); optional - skipped with a note if it does not build
  GO=go1.26 build "$OUT/bin/vcheck.alt" || echo "note: go1.26 build failed, C07 runs with the default toolchain only" >&2
  GO=go
fi
exec "$OUT/bin/vcheck" run "$id" "$tier"
