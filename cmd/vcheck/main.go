// vcheck: parent (`run`, `replay`) and worker (`worker`) of the property monitors.
package main

import (
	"fmt"
	"os"
	"path/filepath"

	"verif/internal/checks"
	"verif/internal/harness"
)

func main() {
	if len(os.Args) < 2 {
		fmt.Fprintln(os.Stderr, "usage: vcheck run <id> <tier> | vcheck replay <file> | vcheck worker ... | vcheck list")
		os.Exit(2)
	}
	switch os.Args[1] {
	case "worker":
		os.Exit(harness.WorkerMain(os.Args[2:]))
	case "spec-selftest":
		os.Exit(checks.SuiteSelfTestMain())
	case "fresh-outcome":
		os.Exit(checks.FreshOutcomeMain(os.Args[2:]))
	case "run":
		tier := "quick"
		if len(os.Args) > 3 {
			tier = os.Args[3]
		}
		os.Exit(harness.RunMain(os.Args[2], tier))
	case "replay":
		os.MkdirAll(filepath.Join(harness.Root, "work"), 0o755)
		os.Exit(harness.ReplayMain(os.Args[2]))
	case "list":
		for _, id := range harness.IDs() {
			fmt.Println(id)
		}
	default:
		fmt.Fprintln(os.Stderr, "unknown command", os.Args[1])
		os.Exit(2)
	}
}
