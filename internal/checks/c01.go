package checks

import (
	"fmt"

	"verif/internal/gen"
	"verif/internal/harness"
	"verif/internal/lib"
)

// C01 — retrieval returns exactly the selected nodes, in order: differential
// monitor against SPEC on systematic and random (path, document) pairs.
func init() {
	harness.Register(&harness.Check{
		ID:    "C01",
		Level: "exploration",
		Rule: "cases = every sequence of <=2 (quick) / <=3 (thorough) of 24 step kinds x 6 function suffixes x 24 battery documents, every valid comparison " +
			"(6 operators x 13 operand kinds x both orders, regex) and logical shape x 10 filter documents x both number decodings, then seeded random ASTs " +
			"(<=5 steps, filters nested <=2) on random and path-directed documents, then every string of the hostile generators (the suite's ~1200 paths, their mutations, spliced and grammar-derived strings, token soup) that the library ACCEPTS, with its AST recovered from the grammar's own parse tree; the oracle itself is validated in every run against the 889 applicable expectations pinned in the library's test file; a case is non-trivial when the path has >=2 steps or a filter and SPEC " +
			"selects something or the failure is not at the first step; distinct = distinct (path text, document, decode mode)",
		Assumptions: []string{
			"SPEC (internal/spec) reads the intended semantics correctly; it is cross-checked by the oracle-free relations C08/C09/C10/C18",
			"user functions are the deterministic standard set (twice, ident, wrap, nostr, count, first, echo, sum)",
			"held on the executions observed, not proved",
		},
		Plan: func(tier string, seed int64) *harness.Plan {
			sys := newSysCases(tier)
			nRand := size(tier, 200000, 12000000)
			nStr := size(tier, 100000, 5000000)
			var src *strSource
			return &harness.Plan{
				N: sys.n() + nRand + nStr,
				Setup: func(c *harness.Ctx) {
					hooksOn()
					src = newStrSource()
					if src.err == nil {
						// the oracle's own credentials: SPEC against the expectations pinned in the library's test file
						ran, _, bad, lines := suiteSelfTest(src.sg.Grammar)
						c.HookMax("max_spec_selftest_suite_cases_run", uint64(ran))
						c.HookMax("max_spec_selftest_disagreements", uint64(bad))
						for _, l := range lines {
							c.Inconclusive("SPEC disagrees with the suite's pinned expectation (oracle problem, not a verdict): " + short(l, 300))
						}
					}
				},
				Run: func(c *harness.Ctx, k int) {
					hooksAlternate(k) // key / container poison also hides a library that wrongly re-uses a recycled buffer's content: every second case runs without

					var d *diffCase
					if k < sys.n() {
						d = sys.get(k)
						c.Tally("systematic")
					} else if k >= sys.n()+nRand {
						if src.err != nil {
							return
						}
						r := c.Rand()
						var ok bool
						if d, ok = stringCase(c, r, gen.New(r), src); !ok {
							return
						}
						c.Tally("parsable-string")
					} else {
						r := c.Rand()
						d = randomCase(r, gen.New(r), r.Intn(4) == 0)
						c.Tally("random")
					}
					runC01(c, d)
				},
				Finish:   reportHooks,
				Required: []string{"adj:root>name", "adj:rec+multi>name", "adj:multi>aggrfn", "adj:wild>aggrfn", "adj:filter>filter", "logic:&&", "logic:||", "logic:!", "cmp:==:$path:num", "cmp:<:num:num", "outcome:values", "outcome:error"},
			}
		},
	})
}

func runC01(c *harness.Ctx, d *diffCase) {
	o := d.observe(std)
	if d.Share {
		c.Cover("doc:shared-sub-containers")
	}
	coverPath(c, d.P)
	if d.nontrivial(&o) {
		c.NonTrivial(d.key())
		if c.WantSample() {
			c.Sample(map[string]interface{}{"path": d.Text, "document": short(d.Doc, 200), "use_number": d.UseNum, "library": short(o.Lib.String(), 200)})
		}
	}
	switch {
	case o.Lib.Panic != nil:
		c.Violation("panic "+d.key(), fmt.Sprintf("Retrieve panicked: %v", o.Lib.Panic), d.detail(map[string]interface{}{"stack": o.Lib.Stack}))
	case o.Lib.Err != nil && len(o.Spec) > 0:
		c.Violation("err-vs-values "+d.key(), "retrieval failed although the step-by-step definition selects values",
			d.detail(map[string]interface{}{"library": lib.ErrString(o.Lib.Err), "spec": lib.JS(specValues(o.Spec))}))
	case o.Lib.Err == nil && len(o.Spec) == 0:
		c.Violation("values-vs-err "+d.key(), "retrieval succeeded although the step-by-step definition selects nothing",
			d.detail(map[string]interface{}{"library": lib.JS(o.Lib.Res), "spec_errors": o.Cands}))
	case o.Lib.Err == nil:
		c.Cover("outcome:values")
		if lib.HasPoison(o.Lib.Res) {
			c.Violation("poison "+d.key(), "result contains a value read from a released pooled buffer", d.detail(map[string]interface{}{"library": lib.JS(o.Lib.Res)}))
		} else if !lib.SameList(o.Lib.Res, specValues(o.Spec)) {
			c.Violation("values "+d.key(), "returned values differ from the step-by-step definition (sequence, multiplicity or order)",
				d.detail(map[string]interface{}{"library": lib.JS(o.Lib.Res), "spec": lib.JS(specValues(o.Spec))}))
		}
	default:
		c.Cover("outcome:error")
	}
}
