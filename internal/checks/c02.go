package checks

import (
	"fmt"

	"github.com/AsaiYusuke/jsonpath"
	"verif/internal/gen"
	"verif/internal/harness"
	"verif/internal/lib"
)

var probeDocs = []string{`{"a":1,"b":[1,2,{"c":3}],"c":"x"}`, `[{"a":1},{"a":2,"b":1},[1,2,3],"s",null]`, `null`}

// C02 — Parse is total.
func init() {
	harness.Register(&harness.Check{
		ID:    "C02",
		Level: "exploration",
		Rule: "cases = one string (<=256 chars) from 12 generators (systematic reduced-grammar sentences incl. invalid operand combinations, rendered random ASTs, " +
			"random spellings, character mutations of those and of the ~1200 paths harvested from the suite, token soup, Unicode / invalid UTF-8 noise, " +
			"grammar-derived boundary strings, one-rule splices into valid hosts, deeply nested / very long regular paths incl. any step form repeated up to 80 times, accepted ASTs with one value-group step inserted into a comparison operand) parsed under 3 configurations (none, functions, functions+accessor); judged: no panic / process death / hang, " +
			"exactly one of (f,nil) or (nil, one of 4 syntax error types), returned f callable on 3 probe documents; non-trivial = the string is not rejected as " +
			"`unrecognized input` at position 0 and is not a plain accepted suite path; distinct = distinct strings",
		Assumptions: []string{"bounded time is observed as 'returned before the 10 s per-case watchdog (time spent inside one library call; confirmed twice alone in fresh processes, 45 s each)'; measured worst case for 256-char inputs is < 20 ms",
			"process death is observed by the parent through the worker's exit status and progress log"},
		Plan: func(tier string, seed int64) *harness.Plan {
			var src *strSource
			cfgs := []func() []jsonpath.Config{
				func() []jsonpath.Config { return nil },
				func() []jsonpath.Config { return []jsonpath.Config{std.Config(false)} },
				func() []jsonpath.Config { return []jsonpath.Config{std.Config(true)} },
			}
			nSys := len(gen.SysSentences(2, 1, fnF, fnG))
			return &harness.Plan{
				N: nSys + size(tier, 300000, 8000000),
				Setup: func(c *harness.Ctx) {
					hooksOn()
					src = newStrSource()
					if src.err != nil {
						c.Inconclusive("grammar file unreadable: " + src.err.Error())
					}
				},
				Run: func(c *harness.Ctx, k int) {
					var s, class string
					if k < nSys {
						s, class = src.sg.Sys[k], "sys"
					} else {
						r := c.Rand()
						s, class = src.sg.Next(r, gen.New(r))
					}
					c.Cover("class:" + class)
					for ci, mk := range cfgs {
						po := lib.Parse(s, mk()...)
						key := fmt.Sprintf("%q cfg=%d", s, ci)
						det := map[string]interface{}{"path": s, "path_quoted": fmt.Sprintf("%q", s), "config": []string{"none", "functions", "functions+accessor"}[ci]}
						switch {
						case po.Panic != nil:
							det["stack"] = po.Stack
							c.Violation("panic "+key, fmt.Sprintf("Parse panicked: %v", po.Panic), det)
						case po.F == nil && po.Err == nil:
							c.Violation("nil-nil "+key, "Parse returned (nil, nil)", det)
						case po.F != nil && po.Err != nil:
							det["error"] = lib.ErrString(po.Err)
							c.Violation("both "+key, "Parse returned a function together with an error", det)
						case po.Err != nil:
							c.Cover(fmt.Sprintf("outcome:%T", po.Err))
							if !lib.IsSyntaxErr(po.Err) {
								det["error"] = lib.ErrString(po.Err)
								c.Violation("errtype "+key, "Parse failed with an error that is not one of the four documented syntax-check types", det)
							}
							if ci == 1 {
								if e, ok := po.Err.(jsonpath.ErrorInvalidSyntax); !ok || len(e.Error()) < 28 || e.Error()[:28] != "invalid syntax (position=0, " {
									c.NonTrivial(s)
								}
							}
						default:
							c.Cover("outcome:func")
							if ci == 1 && class != "suite" {
								c.NonTrivial(s)
							}
							for _, pd := range probeDocs {
								o := lib.Call(po.F, lib.Decode(pd, false))
								if o.Panic != nil {
									det["probe"] = pd
									det["stack"] = o.Stack
									c.Violation("unusable "+key, fmt.Sprintf("the function returned by Parse panicked on a probe document: %v", o.Panic), det)
								}
							}
						}
					}
					if c.WantSample() && k%7 == 0 {
						c.Sample(map[string]interface{}{"string": fmt.Sprintf("%q", s), "class": class})
					}
				},
				Finish: reportHooks,
				Required: []string{"class:sys", "class:ast-mutated", "class:suite-mutated", "class:soup", "class:unicode", "class:grammar", "class:splice", "class:nest", "class:restricted", "outcome:func",
					"outcome:jsonpath.ErrorInvalidSyntax", "outcome:jsonpath.ErrorInvalidArgument", "outcome:jsonpath.ErrorFunctionNotFound", "outcome:jsonpath.ErrorNotSupported"},
			}
		},
	})
}
