package checks

import (
	"encoding/json"
	"fmt"
	"math/rand"

	"github.com/AsaiYusuke/jsonpath"
	"verif/internal/gen"
	"verif/internal/harness"
	"verif/internal/lib"
	"verif/internal/spec"
)

// strSource bundles what the string-driven monitors (C02, C03, C17) need.
type strSource struct {
	sg  *gen.StrGen
	err error
}

func newStrSource() *strSource {
	s := &strSource{sg: &gen.StrGen{}}
	s.sg.Suite = gen.HarvestSuite()
	s.sg.Grammar, s.err = gen.LoadGrammar()
	s.sg.Sys = gen.SysSentences(2, 1, fnF, fnG)
	return s
}

// C03 — evaluation is total.
func init() {
	harness.Register(&harness.Check{
		ID:    "C03",
		Level: "exploration",
		Rule: "cases = a path (hostile-string generators of C02 filtered to those that parse, plus random ASTs whose index/slice literals reach +-2^31, +-2^63) " +
			"evaluated on 6 documents each: battery, random, path-directed, the suite's own document for suite paths, both number decodings, a variant with " +
			"non-JSON leaves, and for json.Number documents a variant whose numbers are spelled as only UseNumber keeps them (1e400, -1e999, 1E2, integers beyond int64, -0); judged: no panic, (non-empty,nil) xor (nil, one of 3 runtime errors), FunctionFailed only if a user function returned an error, " +
			"no pool poison in results; non-trivial = path has a filter, slice, recursive step or function; distinct = distinct (path, document)",
		Assumptions: []string{"bounded time is observed as 'returned before the 10 s per-case watchdog (time spent inside one library call; confirmed twice alone in fresh processes, 45 s each)'", "user functions: recording wrappers around the standard set"},
		Plan: func(tier string, seed int64) *harness.Plan {
			var src *strSource
			return &harness.Plan{
				N: size(tier, 120000, 8000000),
				Setup: func(c *harness.Ctx) {
					hooksOn()
					src = newStrSource()
					if src.err != nil {
						c.Inconclusive("grammar file unreadable: " + src.err.Error())
					}
				},
				Run: func(c *harness.Ctx, k int) {
					r := c.Rand()
					g := gen.New(r)
					g.BigInts = true
					runC03(c, r, g, src)
				},
				Finish:   reportHooks,
				Required: []string{"outcome:values", "outcome:jsonpath.ErrorMemberNotExist", "outcome:jsonpath.ErrorTypeUnmatched", "outcome:jsonpath.ErrorFunctionFailed", "src:ast-bigint", "doc:opaque", "doc:odd-json-numbers"},
			}
		},
	})
}

func runC03(c *harness.Ctx, r *rand.Rand, g *gen.Gen, src *strSource) {
	var text, class string
	var ast *spec.Path
	suiteDoc := ""
	if r.Intn(2) == 0 {
		ast = g.Path(5, 2)
		text, _ = ast.Render(gen.RandomSpelling(r))
		class = "ast-bigint"
	} else {
		text, class = src.sg.Next(r, g)
		if class == "suite" {
			for _, sc := range src.sg.Suite {
				if sc.Path == text {
					suiteDoc = sc.JSON
					break
				}
			}
		}
	}
	rec := lib.NewRecorder()
	fs := std.Recording(rec)
	var cfg jsonpath.Config
	if r.Intn(5) == 0 {
		cfg = fs.Config(true)
	} else {
		cfg = fs.Config(false)
	}
	po := lib.Parse(text, cfg)
	if po.Panic != nil || po.Err != nil || po.F == nil {
		c.Tally("unparsable")
		return // C02's business
	}
	c.Cover("src:" + class)
	interesting := false
	for _, m := range []string{"?(", ":", "..", "()", "*"} {
		for i := 0; i+len(m) <= len(text); i++ {
			if text[i:i+len(m)] == m {
				interesting = true
			}
		}
	}
	docs := []string{gen.Battery[r.Intn(len(gen.Battery))], lib.JS(g.Doc(4))}
	if ast != nil {
		docs = append(docs, lib.JS(g.DocFor(ast)))
	} else {
		docs = append(docs, gen.FilterDocs[r.Intn(len(gen.FilterDocs))])
	}
	if suiteDoc != "" {
		docs = append(docs, suiteDoc)
	}
	for i, dj := range docs {
		var v interface{}
		func() {
			defer func() {
				if recover() != nil {
					v = nil // the suite has a few deliberately odd inputs
				}
			}()
			v = lib.Decode(dj, (i+c.K)%2 == 0)
		}()
		variants := []interface{}{v}
		if (i+c.K)%2 == 0 {
			// UseNumber keeps whatever the document spelled: numbers outside the float64 range, capital exponents,
			// integers beyond int64 (a float64 decoding would have rejected or normalised them)
			if odd, n := oddNumbers(r, lib.Clone(v)); n > 0 {
				variants = append(variants, odd)
				c.Cover("doc:odd-json-numbers")
			}
		}
		if i < 2 {
			used := map[string]bool{}
			variants = append(variants, gen.Opaquify(r, lib.Clone(v), 4, used))
			if len(used) > 0 {
				c.Cover("doc:opaque")
			}
		}
		for vi, doc := range variants {
			errsBefore := rec.Errs
			o := lib.Call(po.F, doc)
			key := fmt.Sprintf("%s\x00%s\x00%d", text, dj, vi)
			det := map[string]interface{}{"path": text, "document": lib.JS(doc), "outcome": o.String()}
			if interesting {
				c.NonTrivial(key)
				if c.WantSample() {
					c.Sample(map[string]interface{}{"path": text, "document": short(lib.JS(doc), 160), "outcome": short(o.String(), 160)})
				}
			}
			switch {
			case o.Panic != nil:
				det["stack"] = o.Stack
				c.Violation("panic "+key, fmt.Sprintf("the parsed function panicked: %v", o.Panic), det)
			case o.Err == nil && len(o.Res) == 0:
				c.Violation("empty-success "+key, "evaluation returned an empty result with a nil error", det)
			case o.Err != nil && o.Res != nil:
				c.Violation("both "+key, "evaluation returned a non-nil result together with an error", det)
			case o.Err != nil && !lib.IsRuntimeErr(o.Err):
				c.Violation("errtype "+key, "evaluation failed with an undocumented error type", det)
			case o.Err != nil:
				c.Cover("outcome:" + fmt.Sprintf("%T", o.Err))
				if _, ok := o.Err.(jsonpath.ErrorFunctionFailed); ok && rec.Errs == errsBefore {
					c.Violation("function-failed-without-error "+key, "ErrorFunctionFailed although no user function returned an error during the call", det)
				}
			default:
				c.Cover("outcome:values")
				if lib.HasPoison(o.Res) {
					c.Violation("poison "+key, "result contains a value read from a released pooled buffer", det)
				}
			}
		}
	}
}

var oddNumberTexts = []string{"1e400", "-1e999", "-2E+309", "1E2", "12345678901234567890", "-12345678901234567890", "-0", "0.10", "1e-400", "9223372036854775808", "0E0"}

// oddNumbers replaces about a third of the json.Number leaves of v (in place) by valid JSON number texts that do not fit
// a float64 / int64 or are spelled unusually.
func oddNumbers(r *rand.Rand, v interface{}) (interface{}, int) {
	n := 0
	var walk func(v interface{}) interface{}
	walk = func(v interface{}) interface{} {
		switch t := v.(type) {
		case json.Number:
			if r.Intn(3) == 0 {
				n++
				return json.Number(oddNumberTexts[r.Intn(len(oddNumberTexts))])
			}
		case []interface{}:
			for i := range t {
				t[i] = walk(t[i])
			}
		case map[string]interface{}:
			for _, k := range sortedKeysOf(t) {
				t[k] = walk(t[k])
			}
		}
		return v
	}
	return walk(v), n
}
