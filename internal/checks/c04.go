package checks

import (
	"fmt"
	"math/rand"
	"reflect"
	"sort"
	"strings"
	"sync"

	"github.com/AsaiYusuke/jsonpath"
	"verif/internal/gen"
	"verif/internal/harness"
	"verif/internal/lib"
	"verif/internal/spec"
)

// snapshot renders a document with the dynamic type of every leaf and the
// identity (address, length) of every map and slice reachable, so that value
// changes, type changes (json.Number -> float64) and container replacement are
// all visible.
func snapshot(v interface{}) string {
	var b strings.Builder
	snap(&b, v, 0)
	return b.String()
}

func snap(b *strings.Builder, v interface{}, depth int) {
	if depth > 60 {
		b.WriteString("<deep>")
		return
	}
	switch t := v.(type) {
	case map[string]interface{}:
		fmt.Fprintf(b, "map@%x#%d{", reflect.ValueOf(t).Pointer(), len(t))
		ks := make([]string, 0, len(t))
		for k := range t {
			ks = append(ks, k)
		}
		sort.Strings(ks)
		for _, k := range ks {
			fmt.Fprintf(b, "%q:", k)
			snap(b, t[k], depth+1)
			b.WriteByte(',')
		}
		b.WriteByte('}')
	case []interface{}:
		fmt.Fprintf(b, "list@%x#%d/%d[", reflect.ValueOf(t).Pointer(), len(t), cap(t))
		for _, x := range t[:cap(t)] { // writes beyond len but inside cap are writes to caller memory too
			snap(b, x, depth+1)
			b.WriteByte(',')
		}
		b.WriteByte(']')
	default:
		fmt.Fprintf(b, "%T:%s", v, lib.JS(v))
	}
}

// writeProneQuery builds filters that combine ==, !=, &&, ||, ! over operands
// that are present, missing or $-rooted: the branches that hand lists around.
func writeProneQuery(r *rand.Rand, g *gen.Gen, depth int) *spec.Query {
	if depth > 0 && r.Intn(2) == 0 {
		op := spec.QAnd
		if r.Intn(2) == 0 {
			op = spec.QOr
		}
		return &spec.Query{Op: op, L: writeProneQuery(r, g, depth-1), R: writeProneQuery(r, g, depth-1)}
	}
	mkPath := func(root byte) *spec.Path {
		p := &spec.Path{Root: root}
		keys := []string{"a", "b", "c", "zz"} // zz is always missing
		for n := r.Intn(3); n > 0; n-- {
			if r.Intn(4) == 0 {
				p.Steps = append(p.Steps, spec.Step{Kind: spec.KUnion, Subs: []spec.Sub{{Kind: spec.SIndex, N: int64(r.Intn(3))}}})
			} else {
				p.Steps = append(p.Steps, spec.Step{Kind: spec.KName, Key: keys[r.Intn(len(keys))]})
			}
		}
		return p
	}
	switch r.Intn(8) {
	case 0:
		return &spec.Query{Op: spec.QNot, P: mkPath("@$"[r.Intn(2)])}
	case 1:
		return &spec.Query{Op: spec.QExist, P: mkPath("@$"[r.Intn(2)])}
	case 2:
		return &spec.Query{Op: spec.QParen, L: writeProneQuery(r, g, depth-1)}
	}
	op := []string{"==", "!=", "==", "!=", "<", ">="}[r.Intn(6)]
	lo := spec.Operand{P: mkPath('@')}
	var ro spec.Operand
	switch r.Intn(3) {
	case 0:
		ro = spec.Operand{P: mkPath('$')}
	default:
		if op == "==" || op == "!=" {
			ro = []spec.Operand{gen.NumLit(1, ""), gen.StrLit("a", false), {IsLit: true, Lit: nil, LitText: "null"}, {IsLit: true, Lit: true, LitText: "true"}}[r.Intn(4)]
		} else {
			ro = gen.NumLit(1, "")
		}
	}
	if r.Intn(2) == 0 {
		lo, ro = ro, lo
	}
	if r.Intn(4) == 0 && (lo.IsLit || lo.P.Root == '@') && (ro.IsLit || ro.P.Root == '@') {
		// two $-rooted operands now and then
		lo = spec.Operand{P: mkPath('$')}
		if !ro.IsLit {
			ro = spec.Operand{P: mkPath('$')}
		}
	}
	return &spec.Query{Op: spec.QCmp, Cmp: op, LO: lo, RO: ro}
}

func writePronePath(r *rand.Rand, g *gen.Gen) *spec.Path {
	p := &spec.Path{Root: '$'}
	for n := r.Intn(2); n > 0; n-- {
		p.Steps = append(p.Steps, spec.Step{Kind: spec.KName, Key: g.Keys[r.Intn(len(g.Keys))]})
	}
	if r.Intn(4) == 0 {
		p.Steps = append(p.Steps, spec.Step{Kind: spec.KRec})
	}
	p.Steps = append(p.Steps, spec.Step{Kind: spec.KFilter, Q: writeProneQuery(r, g, 2)})
	if r.Intn(3) == 0 {
		p.Steps = append(p.Steps, spec.Step{Kind: spec.KName, Key: g.Keys[r.Intn(len(g.Keys))]})
	}
	return p
}

// C04 — retrieval never modifies the source document.
func init() {
	harness.Register(&harness.Check{
		ID:    "C04",
		Level: "exploration",
		Rule: "snapshot part: the C01 case list plus write-prone filters (==, !=, &&, ||, ! over present / missing / $-rooted operands) on arrays and objects, " +
			"each evaluated in plain and accessor mode; before and after every call the document is rendered with the dynamic type of every leaf and the " +
			"address/len/cap of every map and slice, the two renderings must be identical. Race part (race-detector build): 2..8 goroutines evaluate " +
			"write-prone filters on ONE shared document, any report with a library frame is a violation. non-trivial = the path contains a filter and the " +
			"document has >=2 members at the filtered node; distinct = distinct (path, document, mode)",
		Assumptions: []string{"user functions of the standard set do not modify their arguments", "race reports are those the Go race detector produces on the interleavings that occurred"},
		Plan: func(tier string, seed int64) *harness.Plan {
			sys := newSysCases("quick")
			nRand := size(tier, 150000, 8000000)
			nRace := size(tier, 48, 400)
			var src *strSource
			return &harness.Plan{
				N:         sys.n() + nRand + nRace,
				Race:      true,
				NoRaceToo: true,
				Setup: func(c *harness.Ctx) {
					hooksOn()
					src = newStrSource()
				},
				Run: func(c *harness.Ctx, k int) {
					hooksAlternate(k) // with the poison off, a stale alias shows up when a LATER call writes through it (recheckKept)
					switch {
					case k < sys.n():
						if harness.RaceEnabled {
							return // the snapshot part runs in the plain build
						}
						runC04(c, sys.get(k))
					case k < sys.n()+nRand:
						if harness.RaceEnabled {
							return
						}
						r := c.Rand()
						g := gen.New(r)
						var d *diffCase
						if x := r.Intn(6); x == 0 && src.err == nil {
							var ok bool
							if d, ok = stringCase(c, r, g, src); !ok {
								return
							}
						} else if x < 3 {
							d = randomCase(r, g, false)
						} else {
							d = &diffCase{P: writePronePath(r, g)}
							d.Text, d.Texts = d.P.Render(spec.Canon)
							if r.Intn(2) == 0 {
								d.Doc = lib.JS(g.DocFor(d.P))
							} else {
								d.Doc = gen.FilterDocs[r.Intn(len(gen.FilterDocs))]
							}
							d.UseNum = r.Intn(2) == 0
							c.Tally("write-prone")
						}
						runC04(c, d)
					default:
						if !harness.RaceEnabled {
							return
						}
						runC04Race(c)
					}
				},
				Finish: func(c *harness.Ctx) {
					reportHooks(c)
					if harness.RaceEnabled {
						reportRaces(c, "C04")
					}
				},
				Required: []string{"mode:plain", "mode:accessor", "outcome:ok", "outcome:err", "race:runs"},
			}
		},
	})
}

// earlier documents of this worker, re-examined after later calls: a call may leave a time bomb
// (e.g. a pooled buffer aliasing the caller's array) that only a LATER evaluation sets off
type keptDoc struct {
	doc        interface{}
	snap, text string
	json       string
}

var keptDocs [8]keptDoc
var keptNext int

func recheckKept(c *harness.Ctx, laterPath string) {
	for i := range keptDocs {
		k := &keptDocs[i]
		if k.doc == nil {
			continue
		}
		if now := snapshot(k.doc); now != k.snap {
			c.Violation("mutated-later "+k.text+"\x00"+k.json, "a document evaluated earlier changed during a LATER, unrelated retrieval (the earlier call left an alias to caller memory behind)",
				map[string]interface{}{"earlier_path": k.text, "earlier_document": k.json, "later_path": laterPath, "before": k.snap, "after": now})
			k.doc = nil
		}
	}
}

func runC04(c *harness.Ctx, d *diffCase) {
	hasFilter := strings.Contains(d.Text, "?(")
	for mode := 0; mode < 2; mode++ {
		src := lib.Decode(d.Doc, d.UseNum)
		before := snapshot(src)
		var cfg jsonpath.Config
		if mode == 0 {
			cfg = std.Config(false)
			c.Cover("mode:plain")
		} else {
			cfg = std.Config(true)
			c.Cover("mode:accessor")
		}
		o := lib.Retrieve(d.Text, src, cfg)
		if o.Panic == nil && o.Err == nil && mode == 1 {
			// reading through accessors must not write either
			for _, x := range o.Res {
				if a, ok := x.(jsonpath.Accessor); ok && a.Get != nil {
					func() {
						defer func() { recover() }()
						a.Get()
					}()
				}
			}
		}
		after := snapshot(src)
		key := fmt.Sprintf("%s mode=%d", d.key(), mode)
		if o.Panic != nil {
			c.Violation("panic "+key, fmt.Sprintf("Retrieve panicked: %v", o.Panic), d.detail(map[string]interface{}{"stack": o.Stack}))
			continue
		}
		if o.Err != nil {
			c.Cover("outcome:err")
		} else {
			c.Cover("outcome:ok")
		}
		if hasFilter {
			c.NonTrivial(key)
			if c.WantSample() && c.K%13 == 0 {
				c.Sample(map[string]interface{}{"path": d.Text, "document": short(d.Doc, 200), "accessor_mode": mode == 1, "outcome": short(o.String(), 120)})
			}
		}
		recheckKept(c, d.Text)
		if before == after && o.Panic == nil {
			keptDocs[keptNext%len(keptDocs)] = keptDoc{doc: src, snap: after, text: d.Text, json: d.Doc}
			keptNext++
		}
		if before != after {
			c.Violation("mutated "+key, "the source document changed during retrieval (value, leaf type or container identity)",
				d.detail(map[string]interface{}{"accessor_mode": mode == 1, "before": before, "after": after, "outcome": o.String()}))
		}
	}
}

// runC04Race: several goroutines evaluate write-prone filters on one shared document.
func runC04Race(c *harness.Ctx) {
	r := c.Rand()
	g := gen.New(r)
	nG := []int{2, 4, 8}[r.Intn(3)]
	type job struct {
		f    lib.Func
		text string
	}
	var jobs []job
	for len(jobs) < 12 {
		p := writePronePath(r, g)
		text := p.Text()
		po := lib.Parse(text, std.Config(r.Intn(4) == 0))
		if po.Err != nil || po.F == nil {
			continue
		}
		jobs = append(jobs, job{po.F, text})
	}
	docs := []interface{}{lib.Decode(gen.FilterDocs[r.Intn(len(gen.FilterDocs))], r.Intn(2) == 0), lib.Decode(`[{"a":0},{"a":1},{"b":1},{"a":{"a":1}}]`, r.Intn(2) == 0),
		lib.Decode(lib.JS(g.DocFor(writePronePath(r, g))), false)}
	for _, d := range docs {
		collectRanges(d)
	}
	before := make([]string, len(docs))
	for i := range docs {
		before[i] = snapshot(docs[i])
	}
	var wg sync.WaitGroup
	for gi := 0; gi < nG; gi++ {
		wg.Add(1)
		seed := r.Int63()
		go func() {
			defer wg.Done()
			rr := rand.New(rand.NewSource(seed))
			for i := 0; i < 300; i++ {
				j := jobs[rr.Intn(len(jobs))]
				lib.Call(j.f, docs[rr.Intn(len(docs))])
			}
		}()
	}
	wg.Wait()
	c.Cover("race:runs")
	c.TallyN("race-ops", nG*300)
	c.NonTrivial(fmt.Sprintf("race-run %d %d", c.K, nG))
	for i := range docs {
		if after := snapshot(docs[i]); after != before[i] {
			c.Violation(fmt.Sprintf("shared-doc-mutated run=%d", c.K), "a shared document changed while goroutines only evaluated paths on it",
				map[string]interface{}{"before": before[i], "after": after, "paths": func() []string {
					var t []string
					for _, j := range jobs {
						t = append(t, j.text)
					}
					return t
				}()})
		}
	}
}

// sharedRanges: backing arrays of every slice of the documents shared between
// goroutines in this worker (the documents are kept alive so addresses are not reused).
var (
	sharedRanges [][2]uint64
	sharedKeep   []interface{}
)

func collectRanges(v interface{}) {
	sharedKeep = append(sharedKeep, v)
	var walk func(v interface{})
	walk = func(v interface{}) {
		switch t := v.(type) {
		case map[string]interface{}:
			for _, x := range t {
				walk(x)
			}
		case []interface{}:
			if cap(t) > 0 {
				base := uint64(reflect.ValueOf(t).Pointer())
				sharedRanges = append(sharedRanges, [2]uint64{base, base + uint64(cap(t))*16})
			}
			for _, x := range t {
				walk(x)
			}
		}
	}
	walk(v)
}

func inSharedDoc(addrs []uint64) bool {
	for _, a := range addrs {
		for _, rg := range sharedRanges {
			if a >= rg[0] && a < rg[1] {
				return true
			}
		}
	}
	return false
}

// reportRaces turns the race detector's reports into violations or notes. For
// C04 only races on the memory of a shared document count (anything else with a
// library frame is C06's business and is only noted); for C06 every report with
// a library frame counts.
func reportRaces(c *harness.Ctx, prop string) {
	reps := harness.ReadRaceReports()
	c.Hook("race_reports", uint64(len(reps)))
	for _, rp := range reps {
		if prop == "C04" {
			if inSharedDoc(rp.Addrs) {
				c.Violation("race-on-document "+rp.Signature, "the Go race detector reported a write to the memory of a document shared between goroutines that only evaluate paths",
					map[string]interface{}{"report": short(rp.Text, 6000)})
			} else {
				c.Note("race-reports-not-on-document", rp.Signature)
			}
			continue
		}
		if rp.InLibrary {
			c.Violation("race "+rp.Signature, "the Go race detector reported a data race with a frame inside the library", map[string]interface{}{"report": short(rp.Text, 6000)})
		} else {
			c.Note("race-reports-outside-library", rp.Signature)
			c.Inconclusive("race report without a library frame (instrumentation or harness?): " + short(rp.Signature, 200))
		}
	}
}
