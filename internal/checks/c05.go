package checks

import (
	"errors"
	"fmt"
	"math/rand"

	"github.com/AsaiYusuke/jsonpath"
	"verif/internal/gen"
	"verif/internal/harness"
	"verif/internal/hooks"
	"verif/internal/lib"
	"verif/internal/spec"
)

// histFuncs: the standard set plus `keep` (an aggregate that returns the very
// slice it was given - exposes an argument that aliases a pooled buffer) and
// `boom` (a filter function that panics while armed).
type histFuncs struct {
	fs    lib.FuncSet
	armed bool
}

func newHistFuncs() *histFuncs {
	h := &histFuncs{fs: lib.Std().Alias(nil)}
	h.fs.Filter["boom"] = func(v interface{}) (interface{}, error) {
		if h.armed {
			panic(errors.New("user function panics"))
		}
		return v, nil
	}
	return h
}

// flipLeaf returns a copy of doc in which one leaf is replaced (so that
// consecutive documents of a history flip filter outcomes).
func flipLeaf(r *rand.Rand, g *gen.Gen, doc interface{}) interface{} {
	d := lib.Clone(doc)
	type slot struct {
		m map[string]interface{}
		k string
		l []interface{}
		i int
	}
	var slots []slot
	var walk func(v interface{})
	walk = func(v interface{}) {
		switch t := v.(type) {
		case map[string]interface{}:
			for _, k := range sortedKeysOf(t) { // deterministic order: the slot is picked by index
				switch x := t[k].(type) {
				case map[string]interface{}, []interface{}:
					walk(x)
				default:
					slots = append(slots, slot{m: t, k: k})
				}
			}
		case []interface{}:
			for i, x := range t {
				switch x.(type) {
				case map[string]interface{}, []interface{}:
					walk(x)
				default:
					slots = append(slots, slot{l: t, i: i})
				}
			}
		}
	}
	walk(d)
	if len(slots) == 0 {
		return g.Doc(2)
	}
	best := r.Intn(len(slots))
	s := slots[best]
	nv := g.Leaf()
	if s.m != nil {
		s.m[s.k] = nv
	} else {
		s.l[s.i] = nv
	}
	return d
}

// historyPaths: shapes whose evaluation writes into operand lists (the history-sensitive ones) get extra weight.
var sysFilterPaths = func() []*spec.Path {
	var out []*spec.Path
	for _, q := range gen.SysComparisons(fnF, fnG, true) {
		out = append(out, filterPath(q))
	}
	for _, q := range gen.SysLogical() {
		out = append(out, filterPath(q))
	}
	return out
}()

// sysFilterDoc: a root object whose members hit, miss or mistype the operand
// paths of the systematic comparisons (@.a, @.b, @[0], $.x, $.y), all leaves
// from small pools so that changing one leaf often flips the comparison.
func sysFilterDoc(r *rand.Rand, g *gen.Gen) interface{} {
	m := map[string]interface{}{"x": g.Leaf()}
	switch r.Intn(3) {
	case 0:
		m["x"] = []interface{}{g.Leaf(), g.Leaf()}
	case 1:
		delete(m, "x")
	}
	if r.Intn(3) > 0 {
		m["y"] = []interface{}{g.Leaf()}
	}
	for _, k := range []string{"k1", "k2", "k3"} {
		switch r.Intn(4) {
		case 0:
			m[k] = []interface{}{g.Leaf()}
		case 1:
			m[k] = g.Leaf()
		default:
			o := map[string]interface{}{"a": g.Leaf()}
			if r.Intn(2) == 0 {
				o["b"] = g.Leaf()
			}
			m[k] = o
		}
	}
	return m
}

func historyPath(r *rand.Rand, g *gen.Gen) *spec.Path {
	switch r.Intn(6) {
	case 4, 5:
		return sysFilterPaths[r.Intn(len(sysFilterPaths))]
	case 0:
		return writePronePath(r, g)
	case 1:
		p := g.Path(3, 1)
		fn := []string{"keep", "boom", "echo", "first"}[r.Intn(4)]
		p.Funcs = append(p.Funcs, fn)
		if r.Intn(2) == 0 {
			p.Funcs = append(p.Funcs, []string{"keep", "ident", "count"}[r.Intn(3)])
		}
		return p
	}
	return g.Path(4, 2)
}

func outcomeString(o lib.Outcome) string {
	if o.Panic != nil {
		return fmt.Sprintf("PANIC(%v)", o.Panic)
	}
	if o.Err != nil {
		return "ERR(" + lib.ErrString(o.Err) + ")"
	}
	vals := make([]interface{}, len(o.Res))
	for i, x := range o.Res {
		if a, ok := x.(jsonpath.Accessor); ok {
			vals[i] = a.Get()
		} else {
			vals[i] = x
		}
	}
	return lib.JS(vals)
}

// C05 — a parsed function is pure.
func init() {
	harness.Register(&harness.Check{
		ID:    "C05",
		Level: "exploration",
		Rule: "case = one history: a path (write-prone filters, paths ending in functions that keep/return their argument or panic, random ASTs) parsed once, then " +
			"called on 3..8 documents where consecutive documents differ in one leaf, interleaved with unrelated Parse/Retrieve calls that recycle the pools; " +
			"judged per call against a fresh Retrieve of the same path on that document (computed before the history), earlier result slices re-read after every " +
			"later call, returned slices scribbled over before a final call; hooks: pool poison, constants canary, tree fingerprint (a change triggers a 32-document " +
			"probe of f against a freshly parsed twin); non-trivial = the history contains at least two different outcomes; distinct = distinct (path, documents)",
		Assumptions: []string{"sync.Pool reuse is deterministic enough in a single goroutine without -race for released buffers to be recycled by the interleaved calls (the hooks report how many buffers were poisoned)",
			"a user function that panics is recovered by the harness, not by the library"},
		Plan: func(tier string, seed int64) *harness.Plan {
			var hf *histFuncs
			return &harness.Plan{
				N: size(tier, 60000, 2000000),
				Setup: func(c *harness.Ctx) {
					hooks.Configure(hooks.Options{PoisonContainers: true, PoisonKeys: true, ScrambleKeys: 4, CaptureTree: true})
					hooks.ResetCounters()
					hf = newHistFuncs()
				},
				Run: func(c *harness.Ctx, k int) {
					// key / container poison also hides a library that wrongly re-uses a recycled buffer's content: every second history runs without
					hooks.Configure(hooks.Options{PoisonContainers: k%2 == 0, PoisonKeys: k%2 == 0, ScrambleKeys: 4, CaptureTree: true})
					runC05(c, hf)
				},
				Finish:   reportHooks,
				Required: []string{"history:flipped-outcome", "history:with-error", "history:with-user-panic", "history:accessor", "final:after-scribble"},
			}
		},
	})
}

func runC05(c *harness.Ctx, hf *histFuncs) {
	r := c.Rand()
	g := gen.New(r)
	g.Funcs = append(g.Funcs, "boom")
	p := historyPath(r, g)
	text, _ := p.Render(spec.Canon)
	accessor := r.Intn(5) == 0
	cfg := hf.fs.Config(accessor)
	useNum := r.Intn(3) == 0

	// documents: consecutive ones differ in one leaf
	n := 3 + r.Intn(6)
	docs := make([]string, n)
	mk := func() interface{} { return g.DocFor(p) }
	for _, sp := range sysFilterPaths {
		if sp == p {
			mk = func() interface{} { return sysFilterDoc(r, g) }
		}
	}
	cur := mk()
	for i := range docs {
		docs[i] = lib.JS(cur)
		if r.Intn(5) == 0 {
			cur = mk()
		} else {
			cur = flipLeaf(r, g, lib.Decode(docs[i], false))
		}
	}
	key := text + "\x00" + fmt.Sprint(docs, accessor, useNum)

	// expectations: a fresh Retrieve per document, before any history
	hf.armed = false
	want := make([]string, n)
	distinct := map[string]bool{}
	for i, dj := range docs {
		o := lib.Retrieve(text, lib.Decode(dj, useNum), cfg)
		if o.Panic != nil {
			c.Violation("panic "+key, fmt.Sprintf("Retrieve panicked: %v", o.Panic), map[string]interface{}{"path": text, "document": dj, "stack": o.Stack})
			return
		}
		if _, ok := o.Err.(jsonpath.ErrorInvalidSyntax); ok {
			c.Tally("generator-produced-unparsable")
			return
		}
		want[i] = outcomeString(o)
		distinct[want[i]] = true
		if o.Err != nil {
			c.Cover("history:with-error")
		}
	}
	if len(distinct) > 1 {
		c.Cover("history:flipped-outcome")
		c.NonTrivial(key)
	}

	po := lib.Parse(text, cfg)
	if po.Err != nil || po.F == nil {
		return
	}
	tree := hooks.LastTree()
	fpBefore := tree.Fingerprint()
	if accessor {
		c.Cover("history:accessor")
	}

	type kept struct {
		res  []interface{}
		snap string
		at   int
	}
	var earlier []kept
	panicAt := -1
	if len(p.Funcs) > 0 && r.Intn(3) == 0 {
		panicAt = r.Intn(n)
	}
	detail := func(i int, got string) map[string]interface{} {
		return map[string]interface{}{"path": text, "accessor_mode": accessor, "use_number": useNum, "documents": docs, "call_index": i, "expected": want[i], "got": got,
			"tree_fingerprint_changed": tree.Fingerprint() != fpBefore}
	}
	for i, dj := range docs {
		if i == panicAt {
			hf.armed = true
			o := lib.Call(po.F, lib.Decode(dj, useNum))
			hf.armed = false
			if o.Panic != nil {
				c.Cover("history:with-user-panic")
			}
		}
		// unrelated calls that recycle the pooled buffers
		for j := r.Intn(3); j > 0; j-- {
			q := g.Path(3, 1)
			lib.Retrieve(q.Text(), lib.Decode(gen.Battery[r.Intn(len(gen.Battery))], false), cfg)
		}
		o := lib.Call(po.F, lib.Decode(dj, useNum))
		got := outcomeString(o)
		if got != want[i] {
			c.Violation("history "+key, fmt.Sprintf("call %d of a parsed function differs from a fresh Retrieve of the same path on the same document", i+1), detail(i, got))
			return
		}
		if lib.HasPoison(o.Res) {
			c.Violation("poison "+key, "result contains a value read from a released pooled buffer", detail(i, got))
			return
		}
		for _, e := range earlier {
			if s := lib.JS(e.res); s != e.snap {
				c.Violation("earlier-result-changed "+key, fmt.Sprintf("the slice returned by call %d changed after call %d", e.at+1, i+1),
					map[string]interface{}{"path": text, "documents": docs, "was": e.snap, "now": s})
				return
			}
		}
		if o.Err == nil && !accessor {
			earlier = append(earlier, kept{res: o.Res, snap: lib.JS(o.Res), at: i})
		}
	}
	// the caller owns the returned slices: scribble over them, then one more call
	for _, e := range earlier {
		for j := range e.res {
			if l, ok := e.res[j].([]interface{}); ok && len(p.Funcs) > 0 {
				// a slice produced by a user function (keep/echo/wrap) belongs to the caller as well
				for x := range l {
					l[x] = "SCRIBBLE"
				}
			}
			e.res[j] = "SCRIBBLE"
		}
	}
	o := lib.Call(po.F, lib.Decode(docs[0], useNum))
	c.Cover("final:after-scribble")
	if got := outcomeString(o); got != want[0] {
		c.Violation("after-scribble "+key, "after the caller overwrote the slices returned earlier, the parsed function answers differently", detail(0, got))
		return
	}
	if msg := hooks.Canary(); msg != "" {
		c.Violation("canary "+key, "a package-level constant list of the library was modified: "+msg, map[string]interface{}{"path": text, "documents": docs})
		return
	}
	if hooks.Available && tree.Fingerprint() != fpBefore {
		// not a verdict by itself (a refactoring may cache inside the tree): amplify
		c.Tally("tree-fingerprint-changed")
		twin := lib.Parse(text, cfg)
		for j := 0; j < 32 && twin.F != nil; j++ {
			dj := lib.JS(g.DocFor(p))
			a, b := outcomeString(lib.Call(po.F, lib.Decode(dj, useNum))), outcomeString(lib.Call(twin.F, lib.Decode(dj, useNum)))
			if a != b {
				c.Violation("tree-modified "+key, "the syntax tree of the parsed function was modified by its history and it now answers differently from a freshly parsed twin",
					map[string]interface{}{"path": text, "history": docs, "probe": dj, "used_function": a, "fresh_twin": b})
				return
			}
		}
	}
	if c.WantSample() && len(distinct) > 1 {
		c.Sample(map[string]interface{}{"path": text, "history": docs, "outcomes": want})
	}
}
