package checks

import (
	"crypto/sha1"
	"fmt"
	"math/rand"
	"runtime"
	"strings"
	"sync"
	"sync/atomic"

	"github.com/AsaiYusuke/jsonpath"
	"verif/internal/gen"
	"verif/internal/harness"
	"verif/internal/hooks"
	"verif/internal/lib"
	"verif/internal/spec"
)

type concCorpus struct {
	texts []string
	cfgs  []func() []jsonpath.Config
	docs  []interface{}
	docJS []string
	funcs [][]lib.Func // [path][cfg], nil when the path does not parse under that config
	perr  [][]string   // [path][cfg] parse error ("" when it parses)
	want  map[[3]int]string
	// containers beyond every plausible size threshold (1500-element array, 1100-member object, 5000 numbers): evaluated
	// only by the paths of bigPaths (ground truth for every (path, big document) pair would dominate the run)
	nSmall    int
	bigPaths  []int
	longPaths []int // the paths whose comparators work on the long string subjects
}

// compactOutcome keeps long outcomes (results on the big documents) as head + digest.
func compactOutcome(s string) string {
	if len(s) <= 1024 {
		return s
	}
	h := sha1.Sum([]byte(s))
	return fmt.Sprintf("%s… (len=%d sha1=%x)", s[:160], len(s), h[:8])
}

func bigDocs() []interface{} {
	l := make([]interface{}, 1500)
	for i := range l {
		l[i] = map[string]interface{}{"a": float64(i % 20), "b": fmt.Sprintf("s%d", i%7), "i": float64(i), "c": []interface{}{float64(i % 3)}}
	}
	m := map[string]interface{}{}
	for i := 0; i < 1100; i++ {
		m[fmt.Sprintf("k%04d", i)] = map[string]interface{}{"a": float64(i % 5), "b": float64(i)}
	}
	nums := make([]interface{}, 5000)
	for i := range nums {
		nums[i] = float64(i % 50)
	}
	return []interface{}{l, m, map[string]interface{}{"a": nums, "b": map[string]interface{}{"a": float64(1)}, "x": float64(1)}}
}

func buildCorpus(seed int64) *concCorpus {
	cc := &concCorpus{want: map[[3]int]string{}}
	seen := map[string]bool{}
	add := func(p *spec.Path) {
		t := p.Text()
		if !seen[t] {
			seen[t] = true
			cc.texts = append(cc.texts, t)
		}
	}
	for _, p := range gen.SysPaths(1, 1, fnF, fnG) {
		add(p)
	}
	for i, q := range gen.SysComparisons(fnF, fnG, true) {
		if i%9 == 0 {
			add(filterPath(q))
		}
	}
	for i, q := range gen.SysLogical() {
		if i%5 == 0 {
			add(filterPath(q))
		}
	}
	// literal-only comparisons: the shape that raced on the tree's literal
	// ... and regex / string comparisons whose subjects are LONG strings (documents below): per-subject work of a comparator
	for _, t := range []string{`$[?(1 == 2)]`, `$[?(1 < 2)]`, `$[?('a' != 'b')]`, `$[?(2 > $.x)]`, `$.c[?(1 <= $.a)]`,
		`$[?(@.t =~ /^A+$/)]`, `$[?(@.t =~ /B/)].t`, `$..[?(@ =~ /^A+$/)]`, `$[?(@.t == $[0].t)]`, `$[?(@.t != 'AAAAAAAAAAAAAAAAAAAAAAAAAAAAAAAAAAAAAAAAAAAAAAAA')]`} {
		if !seen[t] {
			seen[t] = true
			cc.texts = append(cc.texts, t)
		}
	}
	r := rand.New(rand.NewSource(seed))
	g := gen.New(r)
	for len(cc.texts) < 320 {
		add(g.Path(4, 2))
	}
	// every corpus path once more in a random spelling (spaces, quotes, integer forms, the `s:e:` slice
	// form, rootless): different spellings run different parser actions
	for _, p := range append(gen.SysPaths(1, 0, fnF, fnG), func() []*spec.Path {
		var out []*spec.Path
		for i := 0; i < 60; i++ {
			out = append(out, g.Path(4, 2))
		}
		return out
	}()...) {
		t, _ := p.Render(gen.RandomSpelling(r))
		if !seen[t] {
			seen[t] = true
			cc.texts = append(cc.texts, t)
		}
	}
	cc.cfgs = []func() []jsonpath.Config{
		func() []jsonpath.Config { return nil },
		func() []jsonpath.Config { return []jsonpath.Config{std.Config(false)} },
		func() []jsonpath.Config { return []jsonpath.Config{std.Config(true)} },
	}
	for i, dj := range append(append([]string{}, gen.Battery...), gen.FilterDocs...) {
		cc.docs = append(cc.docs, lib.Decode(dj, i%2 == 1))
		cc.docJS = append(cc.docJS, dj)
	}
	// long string subjects (48 and 300 bytes), the same shape with different verdicts per document
	for i, dj := range []string{
		`[{"t":"` + strings.Repeat("A", 48) + `"},{"t":"` + strings.Repeat("A", 300) + `"},{"t":"` + strings.Repeat("A", 48) + `"},{"t":"A"}]`,
		`[{"t":"` + strings.Repeat("B", 48) + `"},{"t":"` + strings.Repeat("B", 300) + `"},{"t":"` + strings.Repeat("A", 47) + `B"},{"t":"B"}]`,
		`[{"t":"` + strings.Repeat("A", 47) + `B"},{"t":"` + strings.Repeat("A", 48) + `"},{"t":"` + strings.Repeat("B", 48) + `"}]`,
	} {
		cc.docs = append(cc.docs, lib.Decode(dj, i%2 == 1))
		cc.docJS = append(cc.docJS, short(dj, 200))
	}
	cc.nSmall = len(cc.docs)
	for i, d := range bigDocs() {
		cc.docs = append(cc.docs, d)
		cc.docJS = append(cc.docJS, fmt.Sprintf("<big document %d: %s>", i, short(lib.JS(d), 120)))
	}
	// the paths that also run on the big documents: root-level filters first (their operand lists are as long as the container), then every 12th path
	for i, t := range cc.texts {
		if (strings.HasPrefix(t, "$[?(") && len(cc.bigPaths) < 14 && i%3 == 0) || i%40 == 0 {
			cc.bigPaths = append(cc.bigPaths, i)
		}
	}
	for i, t := range cc.texts {
		if strings.Contains(t, "@.t") || strings.Contains(t, "/^A+$/") {
			cc.longPaths = append(cc.longPaths, i)
		}
	}
	isBig := map[int]bool{}
	for _, i := range cc.bigPaths {
		isBig[i] = true
	}
	// sequential ground truth
	cc.funcs = make([][]lib.Func, len(cc.texts))
	cc.perr = make([][]string, len(cc.texts))
	for i, t := range cc.texts {
		cc.funcs[i] = make([]lib.Func, len(cc.cfgs))
		cc.perr[i] = make([]string, len(cc.cfgs))
		for j, mk := range cc.cfgs {
			po := lib.Parse(t, mk()...)
			if po.Panic != nil {
				cc.perr[i][j] = fmt.Sprintf("PANIC(%v)", po.Panic)
				continue
			}
			if po.Err != nil {
				cc.perr[i][j] = lib.ErrString(po.Err)
				continue
			}
			cc.funcs[i][j] = po.F
			for d := range cc.docs {
				if d >= cc.nSmall && !isBig[i] {
					continue
				}
				cc.want[[3]int{i, j, d}] = compactOutcome(outcomeString(lib.Call(po.F, cc.docs[d])))
			}
		}
	}
	return cc
}

// C06 — Parse and parsed functions are safe for concurrent use.
func init() {
	harness.Register(&harness.Check{
		ID:    "C06",
		Level: "exploration",
		Rule: "case = one run: G in {2,4,8,16} goroutines, each a seeded mix of Parse(path, config), calls of SHARED parsed functions on SHARED read-only documents and " +
			"Retrieve (runs are mixed, evaluation-only — no lock taken, hence no happens-before edge between goroutines at all — or parse-only), over a corpus of ~400 paths (every step kind x function suffix, a slice of every comparison/logical shape, literal-only comparisons, random ASTs) x 3 " +
			"configurations x 40 documents (37 small ones, three of them with string members of 48..300 bytes; a 1500-element array, a 1100-member object and 5000 numbers evaluated by 20 of the paths); in a third of the runs half of the operations go to a hot set of five (path, configuration, document) triples and 2% to one on a big document; scheduler yields injected at the Parse/evaluation hook points; executed once under the Go race detector and once without; " +
			"judged: zero race reports with a library frame, and every operation returns exactly its sequential outcome (computed before any goroutine starts); " +
			"non-trivial = every operation executed while other goroutines were inside the library; distinct = distinct (operation kind, path, configuration, document) combinations; the evidence reports operations, the maximum number of " +
			"evaluations in flight and how many evaluations overlapped a Parse",
		Assumptions: []string{"the race detector reports only races that happened on the interleavings the scheduler produced", "shared documents are never written by the harness; user functions are pure"},
		Plan: func(tier string, seed int64) *harness.Plan {
			var cc *concCorpus
			ops := size(tier, 3000, 10000)
			return &harness.Plan{
				N:           size(tier, 20, 96),
				Race:        true,
				NoRaceToo:   true,
				MaxShards:   4,
				CaseTimeout: 120,
				Setup: func(c *harness.Ctx) {
					hooks.Configure(hooks.Options{PoisonContainers: true, PoisonKeys: true, ScrambleKeys: 4})
					cc = buildCorpus(seed)
					hooks.Configure(hooks.Options{PoisonContainers: true, PoisonKeys: true, ScrambleKeys: 4, YieldEvery: 16})
					hooks.ResetCounters()
				},
				Run: func(c *harness.Ctx, k int) { runC06(c, cc, ops) },
				Finish: func(c *harness.Ctx) {
					reportHooks(c)
					s := hooks.Stats()
					c.HookMax("max_eval_in_flight", uint64(s.MaxEvalInFlight))
					c.Hook("eval_overlapped_parse", s.EvalOverlappedParse)
					c.Hook("parse_overlapped_eval", s.ParseOverlappedEval)
					c.Hook("yields_injected", s.Yields)
					if harness.RaceEnabled {
						reportRaces(c, "C06")
						c.Cover("build:race")
					} else {
						c.Cover("build:plain")
					}
				},
				Required: []string{"build:race", "build:plain", "op:shared-call", "op:parse", "op:retrieve", "g:2", "g:16", "mix:mixed", "mix:eval-only", "load:hot-set", "doc:big"},
			}
		},
	})
}

func runC06(c *harness.Ctx, cc *concCorpus, opsPerG int) {
	r := c.Rand()
	nG := []int{2, 4, 8, 16}[c.K%4]
	c.Cover(fmt.Sprintf("g:%d", nG))
	// fewer Ps than goroutines forces time-slicing inside library calls, more Ps true parallelism
	procs := []int{0, 2, 4, 1}[(c.K/4)%4]
	if procs > 0 {
		defer runtime.GOMAXPROCS(runtime.GOMAXPROCS(procs))
	}
	c.Cover(fmt.Sprintf("gomaxprocs:%d", procs))
	// operation mix of this run. Every Parse takes the library's global lock, and for the race detector
	// each lock hand-over orders everything the two goroutines did before / after it; a run in which
	// nobody parses has no such edges, so ANY two unsynchronised accesses to a shared tree are reported,
	// however far apart in time they happen.
	mix := (c.K / 16) % 3
	if c.K%5 == 4 {
		mix = 1
	}
	c.Cover([]string{"mix:mixed", "mix:eval-only", "mix:parse-only"}[mix])
	if procs == 1 || procs == 2 {
		opsPerG = opsPerG * procs / 4 // the same goroutines on one or two Ps take proportionally longer
	}
	// hot set: in a third of the runs half of the operations go to six (path, configuration, document) triples (three of them ONE
	// path on three different documents) and 2% to one triple on a big document, so that the SAME parsed function is inside the library on several goroutines at once
	var hot [][3]int
	if c.K%3 == 1 {
		for len(hot) < 4 {
			h := [3]int{r.Intn(len(cc.texts)), r.Intn(len(cc.cfgs)), r.Intn(cc.nSmall)}
			if len(hot) < 1 {
				h[0], h[2] = cc.bigPaths[r.Intn(len(cc.bigPaths))], cc.nSmall+r.Intn(len(cc.docs)-cc.nSmall)
			}
			hot = append(hot, h)
		}
		// ... and ONE parsed function on DIFFERENT documents at the same time (per-call scratch kept in the tree shows as wrong
		// results, not only as a race, when the calls disagree about it): one of the long-subject paths on the three
		// long-string documents
		lp, lj := cc.longPaths[r.Intn(len(cc.longPaths))], r.Intn(len(cc.cfgs))
		for d := cc.nSmall - 3; d < cc.nSmall; d++ {
			hot = append(hot, [3]int{lp, lj, d})
		}
		c.Cover("load:hot-set")
	}
	var wg sync.WaitGroup
	totalBig := 0
	var total int64
	var mu sync.Mutex
	type mismatch struct{ op, path, doc, want, got string }
	var bad []mismatch
	seenOps := map[uint32]struct{}{} // distinct (operation kind, path, config, document) executed under concurrency
	for gi := 0; gi < nG; gi++ {
		wg.Add(1)
		seed := r.Int63()
		go func() {
			defer wg.Done()
			rr := rand.New(rand.NewSource(seed))
			n, bigOps := 0, 0
			mine := map[uint32]struct{}{}
			defer func() {
				mu.Lock()
				for k := range mine {
					seenOps[k] = struct{}{}
				}
				totalBig += bigOps
				mu.Unlock()
			}()
			report := func(op string, i, d int, want, got string) {
				mu.Lock()
				if len(bad) < 5 {
					bad = append(bad, mismatch{op, cc.texts[i], cc.docJS[d], want, got})
				}
				mu.Unlock()
			}
			for ; n < opsPerG; n++ {
				i, j, d := rr.Intn(len(cc.texts)), rr.Intn(len(cc.cfgs)), rr.Intn(cc.nSmall)
				if rr.Intn(24) == 0 {
					i, d = cc.bigPaths[rr.Intn(len(cc.bigPaths))], cc.nSmall+rr.Intn(len(cc.docs)-cc.nSmall)
				}
				if len(hot) > 0 {
					switch x := rr.Intn(48); {
					case x == 0:
						i, j, d = hot[0][0], hot[0][1], hot[0][2] // the hot triple on a big document (each such call costs milliseconds)
					case x < 24:
						h := hot[1+rr.Intn(len(hot)-1)]
						i, j, d = h[0], h[1], h[2]
					}
				}
				op := rr.Intn(10)
				switch mix {
				case 1:
					op = 0 // evaluation only: no lock is ever taken, so no happens-before edge exists between the goroutines
				case 2:
					op = 4 + op%6 // Parse and Retrieve only
				}
				kind := uint32(2)
				if op < 4 {
					kind = 0
				} else if op < 7 {
					kind = 1
				}
				mine[kind<<28|uint32(i)<<12|uint32(j)<<8|uint32(d)] = struct{}{}
				if d >= cc.nSmall {
					bigOps++ // no shared state touched here: a lock in this loop would order the goroutines for the race detector
				}
				switch {
				case op < 4:
					f := cc.funcs[i][j]
					if f == nil {
						continue
					}
					if got, want := compactOutcome(outcomeString(lib.Call(f, cc.docs[d]))), cc.want[[3]int{i, j, d}]; got != want {
						report("call of a shared parsed function", i, d, want, got)
					}
				case op < 7:
					po := lib.Parse(cc.texts[i], cc.cfgs[j]()...)
					switch {
					case po.Panic != nil:
						report("Parse", i, d, cc.perr[i][j], fmt.Sprintf("PANIC(%v)", po.Panic))
					case po.Err != nil:
						if got := lib.ErrString(po.Err); got != cc.perr[i][j] {
							report("Parse", i, d, "parse outcome: "+cc.perr[i][j], got)
						}
					case cc.perr[i][j] != "":
						report("Parse", i, d, cc.perr[i][j], "parsed successfully")
					default:
						if got, want := compactOutcome(outcomeString(lib.Call(po.F, cc.docs[d]))), cc.want[[3]int{i, j, d}]; got != want {
							report("call of a freshly parsed function", i, d, want, got)
						}
					}
				default:
					o := lib.Retrieve(cc.texts[i], cc.docs[d], cc.cfgs[j]()...)
					want := cc.want[[3]int{i, j, d}]
					if cc.perr[i][j] != "" {
						want = "ERR(" + cc.perr[i][j] + ")"
					}
					if got := compactOutcome(outcomeString(o)); got != want {
						report("Retrieve", i, d, want, got)
					}
				}
			}
			atomic.AddInt64(&total, int64(n))
		}()
	}
	wg.Wait()
	if totalBig > 0 {
		c.Cover("doc:big")
		c.TallyN("operations_on_big_documents", totalBig)
	}
	for k := range seenOps {
		c.NonTrivial(fmt.Sprintf("op %08x", k))
	}
	c.Cover("op:shared-call")
	c.Cover("op:parse")
	c.Cover("op:retrieve")
	c.TallyN("operations", int(total))
	for _, b := range bad {
		c.Violation(fmt.Sprintf("concurrent-result %s %s %s", b.op, b.path, b.doc), "under concurrency an operation returned something else than when run alone",
			map[string]interface{}{"operation": b.op, "path": b.path, "document": b.doc, "sequential": b.want, "concurrent": b.got, "goroutines": nG})
	}
	if c.WantSample() {
		c.Sample(map[string]interface{}{"goroutines": nG, "operations": total, "race_build": harness.RaceEnabled, "corpus_paths": len(cc.texts), "example_path": cc.texts[r.Intn(len(cc.texts))]})
	}
}
