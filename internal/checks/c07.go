package checks

import (
	"fmt"
	"math/rand"
	"runtime"
	"sort"
	"strings"

	"verif/internal/harness"
	"verif/internal/hooks"
	"verif/internal/lib"
	"verif/internal/spec"
)

var orderKeyPool = []string{"a", "B", "aa", "Z", "é", "z", "~", "a b", "ÿ", "😀", "ａ", "A", "b", "ab", "aB", "a\u0000", "", "0", "10", "9", "_", "-", "a.b", "'", "\"", "\\", "é́", "é", "\U0001F600\U0001F600", "￿", "", "zz", "Zz", "zZ", "aaa", "1"}

// buildOrdered builds the same object by inserting the keys in the given order.
// Most members are {"v": key, "n": {"v": key+"/n"}, ...} so that an inner key
// collection runs while an outer loop is in progress.
func buildOrdered(keys []string) map[string]interface{} {
	m := map[string]interface{}{}
	for _, k := range keys {
		// the members differ in shape (decided by the key alone, so equal key sets build equal objects): flat ones next to
		// nested ones, arrays next to objects, two and three levels - whatever the descent does per kind of child, siblings
		// of every kind meet in every order
		h := len(k)
		for _, b := range []byte(k) {
			h = h*31 + int(b)
		}
		switch h % 5 {
		case 0:
			m[k] = map[string]interface{}{"v": k} // flat: scalars only
		case 1:
			m[k] = []interface{}{k + "/0", k + "/1"} // flat array
		case 2:
			m[k] = map[string]interface{}{"v": k, "n": map[string]interface{}{"v": k + "/n", "n": map[string]interface{}{"v": k + "/n/n", "l": []interface{}{k + "/n/n/l0"}}}}
		default:
			m[k] = map[string]interface{}{"v": k, "n": map[string]interface{}{"v": k + "/n"}, "l": []interface{}{k + "/l0", k + "/l1"}, "B": []interface{}{k + "/B0"}, "é": []interface{}{k + "/é0", k + "/é1"}}
		}
	}
	return m
}

var orderShapes = []struct {
	name string
	path *spec.Path
}{
	{"wildcard", &spec.Path{Root: '$', Steps: []spec.Step{{Kind: spec.KWild}, {Kind: spec.KName, Key: "v"}}}},
	{"bracket-wildcard", &spec.Path{Root: '$', Steps: []spec.Step{{Kind: spec.KWild, Bracket: true}, {Kind: spec.KWild}}}},
	{"filter", &spec.Path{Root: '$', Steps: []spec.Step{{Kind: spec.KFilter, Q: &spec.Query{Op: spec.QExist, P: &spec.Path{Root: '@', Steps: []spec.Step{{Kind: spec.KName, Key: "v"}}}}}, {Kind: spec.KName, Key: "v"}}}},
	{"recursive-name", &spec.Path{Root: '$', Steps: []spec.Step{{Kind: spec.KRec}, {Kind: spec.KName, Key: "v"}}}},
	{"recursive-wildcard", &spec.Path{Root: '$', Steps: []spec.Step{{Kind: spec.KRec}, {Kind: spec.KWild}}}},
	{"recursive-filter", &spec.Path{Root: '$', Steps: []spec.Step{{Kind: spec.KRec}, {Kind: spec.KFilter, Q: &spec.Query{Op: spec.QExist, P: &spec.Path{Root: '@', Steps: []spec.Step{{Kind: spec.KName, Key: "v"}}}}}}}},
	{"recursive-index", &spec.Path{Root: '$', Steps: []spec.Step{{Kind: spec.KRec}, {Kind: spec.KUnion, Subs: []spec.Sub{{Kind: spec.SIndex, N: 0}}}}}},
	{"recursive-slice", &spec.Path{Root: '$', Steps: []spec.Step{{Kind: spec.KRec}, {Kind: spec.KUnion, Subs: []spec.Sub{{Kind: spec.SSlice, Start: nil, End: nil, Step: nil}}}}}},
	{"nested-recursive-index", &spec.Path{Root: '$', Steps: []spec.Step{{Kind: spec.KName, Key: "wrap"}, {Kind: spec.KRec}, {Kind: spec.KUnion, Subs: []spec.Sub{{Kind: spec.SIndex, N: 1}, {Kind: spec.SIndex, N: 0}}}}}},
	{"multi-with-wildcard", &spec.Path{Root: '$', Steps: []spec.Step{{Kind: spec.KMulti, Items: []spec.MItem{{Wild: true}, {Key: "?"}}}, {Kind: spec.KName, Key: "v"}}}},
	// names only, in the order WRITTEN (not the key order), more names than the object may have members, absent names in between
	{"multi-names-written-order", &spec.Path{Root: '$', Steps: []spec.Step{{Kind: spec.KMulti, Items: []spec.MItem{{Key: "?"}, {Key: "?"}}}}}},
	{"recursive-multi-names-written-order", &spec.Path{Root: '$', Steps: []spec.Step{{Kind: spec.KRec}, {Kind: spec.KMulti, Items: []spec.MItem{{Key: "?"}, {Key: "?"}}}}}},
	{"filter-compare", &spec.Path{Root: '$', Steps: []spec.Step{{Kind: spec.KFilter, Q: &spec.Query{Op: spec.QCmp, Cmp: "!=", LO: spec.Operand{P: &spec.Path{Root: '@', Steps: []spec.Step{{Kind: spec.KName, Key: "v"}}}}, RO: spec.Operand{IsLit: true, Lit: "zz", LitText: "'zz'"}}}, {Kind: spec.KWild}, {Kind: spec.KWild}}}},
}

var nestedShape = func() int {
	for i, sh := range orderShapes {
		if sh.name == "nested-recursive-index" {
			return i
		}
	}
	return -1
}()

// C07 — result order is deterministic.
func init() {
	harness.Register(&harness.Check{
		ID:    "C07",
		Level: "exploration",
		Rule: "case = one key set (2..12 keys from a pool that sorts differently by byte, rune, length and case; one in six cases 13..260 keys incl. generated ones with shared prefixes) x 13 path shapes (wildcard, filter, multi-name lists of names in the order written with absent and repeated names - alone and after `..` -, recursive descent followed by name / wildcard / filter / index / slice, also below an object nested directly in an object, multi-name with *); " +
			"the object is built 3 times with different insertion orders, each shape evaluated repeatedly on each build (20 / 60 repetitions) interleaved with evaluations on " +
			"bigger and smaller maps that recycle the pooled key buffers; judged: all repetitions identical and equal to the order computed with sort.Strings / pre-order / " +
			"written order (SPEC), and for the plain wildcard shape to the directly sorted key list; hooks: adversarial key scrambling before the library's sort, key-buffer poison (half of the cases; a quarter runs without any hook: poison also hides a library that wrongly re-uses a recycled buffer's content); " +
			"the thorough tier runs everything a second time from a binary built with go1.26 (different map implementation and iteration order); non-trivial = every key set; distinct = distinct key sets",
		Assumptions: []string{"byte-wise order = Go string comparison = sort.Strings", "Go randomises map iteration per range loop; the scramble hook additionally forces reverse-sorted / rotated / by-length input to the library's sort"},
		Plan: func(tier string, seed int64) *harness.Plan {
			reps := size(tier, 20, 60)
			return &harness.Plan{
				N:            size(tier, 12000, 600000),
				AltToolchain: true,
				Setup: func(c *harness.Ctx) {
					hooksOn()
					c.Cover("toolchain:" + runtime.Version())
				},
				Run: func(c *harness.Ctx, k int) {
					// key-buffer poison makes recycled buffers unusable for the library - also for a library that wrongly RE-uses
					// their content; so half of the cases run without poison, a quarter without any hook
					switch k % 4 {
					case 0, 2:
						hooks.Configure(hooks.Options{PoisonContainers: true, PoisonKeys: true, ScrambleKeys: 4})
					case 1:
						hooks.Configure(hooks.Options{ScrambleKeys: 4})
					default:
						hooks.Configure(hooks.Options{})
					}
					runC07(c, reps)
				},
				Finish:   reportHooks,
				Required: []string{"keys:2", "keys:12", "keys:large", "shape:wildcard", "shape:recursive-name", "shape:filter", "shape:multi-with-wildcard", "shape:recursive-index", "shape:nested-recursive-index", "shape:multi-names-written-order", "shape:recursive-multi-names-written-order"},
			}
		},
	})
}

func runC07(c *harness.Ctx, reps int) {
	r := c.Rand()
	n := 2 + r.Intn(11)
	perm := r.Perm(len(orderKeyPool))
	keys := make([]string, n)
	for i := range keys {
		keys[i] = orderKeyPool[perm[i]]
	}
	if r.Intn(6) == 0 {
		// key sets beyond the small sizes (sorting fast paths, pooled buffers and tables end somewhere)
		n = []int{13, 16, 17, 20, 31, 32, 33, 63, 64, 65, 66, 127, 128, 129, 257, 260}[r.Intn(16)]
		seen := map[string]bool{}
		keys = keys[:0]
		for len(keys) < n {
			var k string
			if len(keys) < len(orderKeyPool) && r.Intn(2) == 0 {
				k = orderKeyPool[perm[len(keys)]]
			} else {
				alphabet := []string{"a", "b", "A", "é", "0", "_", "z", "😀"}
				for l := 1 + r.Intn(4); l > 0; l-- {
					k += alphabet[r.Intn(len(alphabet))]
				}
				if r.Intn(4) == 0 {
					k = "common-prefix/" + k
				}
			}
			if !seen[k] {
				seen[k] = true
				keys = append(keys, k)
			}
		}
		c.Cover("keys:large")
		if reps > 9 {
			reps = 9 // every repetition renders a result of thousands of values: three rounds over the three builds are enough
		}
		if n > 130 {
			reps = 3
		}
	}
	c.Cover(fmt.Sprintf("keys:%d", n))
	sorted := append([]string{}, keys...)
	sort.Strings(sorted)
	c.NonTrivial(strings.Join(sorted, "\x00"))

	// three independently built equal maps, different insertion orders
	builds := make([]map[string]interface{}, 3)
	for b := range builds {
		order := append([]string{}, keys...)
		rand.New(rand.NewSource(r.Int63())).Shuffle(len(order), func(i, j int) { order[i], order[j] = order[j], order[i] })
		if b == 1 {
			sort.Sort(sort.Reverse(sort.StringSlice(order)))
		}
		builds[b] = buildOrdered(order)
		if c.K%len(orderShapes) == nestedShape {
			// the keyed object nested DIRECTLY inside another object (not reached through an array)
			builds[b] = map[string]interface{}{"wrap": builds[b], "zz": []interface{}{"tail"}}
		}
	}
	// other maps that recycle the pooled key buffers (bigger and smaller key sets)
	others := []interface{}{buildOrdered(orderKeyPool[:1]), buildOrdered(orderKeyPool), buildOrdered(orderKeyPool[5:9]),
		// smaller objects made of the case's OWN keys (its greatest key alone; a middle key and the greatest): whatever they leave in a
		// recycled key buffer consists of keys the next evaluation of the big object also has
		buildOrdered(sorted[len(sorted)-1:]), buildOrdered([]string{sorted[len(sorted)/2], sorted[len(sorted)-1]})}

	shape := orderShapes[c.K%len(orderShapes)]
	c.Cover("shape:" + shape.name)
	p := shape.path
	if shape.name == "multi-with-wildcard" {
		cp := *p
		cp.Steps = append([]spec.Step{}, p.Steps...)
		cp.Steps[0] = spec.Step{Kind: spec.KMulti, Items: []spec.MItem{{Wild: true}, {Key: keys[r.Intn(n)]}}}
		p = &cp
	}
	if strings.HasSuffix(shape.name, "multi-names-written-order") {
		// a shuffled selection of the object's own keys (up to 9) with absent names and a repetition mixed in
		var items []spec.MItem
		for _, i := range r.Perm(n) {
			if len(items) < 9 {
				items = append(items, spec.MItem{Key: keys[i]})
			}
		}
		items = append(items, spec.MItem{Key: "absent-1"}, spec.MItem{Key: keys[r.Intn(n)]}, spec.MItem{Key: "absent-2"}, spec.MItem{Key: "v"}, spec.MItem{Key: "n"})
		r.Shuffle(len(items), func(i, j int) { items[i], items[j] = items[j], items[i] })
		cp := *p
		cp.Steps = append([]spec.Step{}, p.Steps...)
		cp.Steps[len(cp.Steps)-1] = spec.Step{Kind: spec.KMulti, Items: items}
		p = &cp
	}
	text := p.Text()
	ev := &spec.Evaluator{F: std.Spec()}
	res, _ := ev.Eval(p, builds[0], builds[0])
	want := lib.JS(specValues(res))
	if shape.name == "wildcard" {
		// independent of SPEC: the directly sorted key list
		vals := []interface{}{}
		for _, k := range sorted {
			if mm, ok := builds[0][k].(map[string]interface{}); ok && mm["v"] == k { // flat array members have no "v"
				vals = append(vals, k)
			}
		}
		if direct := lib.JS(vals); direct != want {
			c.Inconclusive("SPEC and the directly sorted key list disagree for " + text)
			want = direct
		}
	}
	po := lib.Parse(text)
	if po.Err != nil || po.F == nil {
		c.Violation("unparsable "+text, "an order-shape path did not parse: "+lib.ErrString(po.Err), nil)
		return
	}
	for i := 0; i < reps; i++ {
		b := builds[i%3]
		var o lib.Outcome
		if i%4 == 3 {
			o = lib.Retrieve(text, b)
		} else {
			o = lib.Call(po.F, b)
		}
		got := o.String()
		if len(res) == 0 && o.Panic == nil && o.Err != nil {
			got = want // the definition selects nothing here: the retrieval has to fail (which error is C15's business), and it did
		}
		if got != want {
			c.Violation("order "+text+" "+strings.Join(sorted, ","), fmt.Sprintf("repetition %d on build %d returned a different sequence than sorted-key / pre-order / written order", i+1, i%3+1),
				map[string]interface{}{"path": text, "keys_sorted": sorted, "expected": want, "got": got, "repetition": i + 1})
			return
		}
		lib.Retrieve("$.*.n.v", others[i%len(others)])
		if i%5 == 0 {
			lib.Retrieve("$..v", others[(i+1)%len(others)])
		}
	}
	if c.WantSample() && c.K%17 == 0 {
		c.Sample(map[string]interface{}{"path": text, "keys_inserted": keys, "expected_sequence": short(want, 300), "repetitions": reps})
	}
}
