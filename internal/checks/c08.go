package checks

import (
	"fmt"

	"github.com/AsaiYusuke/jsonpath"

	"verif/internal/gen"
	"verif/internal/harness"
	"verif/internal/lib"
	"verif/internal/spec"
)

// hasRootOrAggr: Q may not contain a $-rooted filter operand or an aggregate function.
func hasRootOrAggr(p *spec.Path) bool {
	for _, f := range p.Funcs {
		if _, ok := std.Aggr[f]; ok {
			return true
		}
	}
	bad := false
	for i := range p.Steps {
		if p.Steps[i].Kind == spec.KFilter {
			p.Steps[i].Q.Walk(func(sub *spec.Path) {
				if sub.Root == '$' {
					bad = true
				}
				for _, f := range sub.Funcs {
					if _, ok := std.Aggr[f]; ok {
						bad = true
					}
				}
			})
		}
	}
	return bad
}

// C08 — steps compose: P·Q(doc) = concat over v in P(doc) of $·Q(v).
func init() {
	harness.Register(&harness.Check{
		ID:    "C08",
		Level: "exploration",
		Rule: "case = one (path, document): systematic step-kind sequences (<=2 / <=3 kinds, with filter-function suffixes) x battery documents, then random ASTs on " +
			"path-directed documents; for EVERY split point k (not between `..` and its operand; Q without $-rooted operand or aggregate) three real retrievals are " +
			"compared: Retrieve(P·Q, doc) must equal the concatenation in order of Retrieve($·Q, v) for v in Retrieve(P, doc), and fail exactly when that concatenation " +
			"is empty; additionally, at every split whose next step is a multi-name selector, a union or `..`, on every value P selects: the selector equals the concatenation of its single selectors in written order, and `..X` equals X applied to every container in pre-order (containers enumerated by the harness); one case in eight runs on the maximally shared form of its document (equal sub-containers are one map / slice); no reference model involved; non-trivial = the concatenation is non-empty and P selects >= 1 value with at least one step on each side; " +
			"distinct = distinct (path, split, document)",
		Assumptions: []string{"values selected by P are passed to the second retrieval as they are (shared sub-documents, not copies)"},
		Plan: func(tier string, seed int64) *harness.Plan {
			var paths []*spec.Path
			if tier == "thorough" {
				paths = gen.SysPaths(3, 2, fnF, fnG)
			} else {
				paths = gen.SysPaths(2, 2, fnF, fnG)
			}
			nSys := len(paths) * len(gen.Battery)
			return &harness.Plan{
				N:     nSys + size(tier, 100000, 4000000),
				Setup: func(c *harness.Ctx) { hooksOn() },
				Run: func(c *harness.Ctx, k int) {
					hooksAlternate(k)
					var p *spec.Path
					var doc string
					if k < nSys {
						p, doc = paths[k/len(gen.Battery)], gen.Battery[k%len(gen.Battery)]
					} else {
						r := c.Rand()
						g := gen.New(r)
						g.Aggrs = nil // aggregates are excluded from Q anyway; keep every split usable
						p = g.Path(5, 2)
						if r.Intn(4) == 0 {
							doc = lib.JS(g.Doc(5))
						} else {
							doc = lib.JS(g.DocFor(p))
						}
					}
					runC08(c, p, doc, k%2 == 1)
				},
				Finish:   reportHooks,
				Required: []string{"split:rec+multi|name", "split:rec+name|filter", "split:multi|name", "split:union|filter", "relation:nonempty", "relation:empty", "decompose:multi", "decompose:union", "decompose:rec", "doc:shared-sub-containers"},
			}
		},
	})
}

func runC08(c *harness.Ctx, p *spec.Path, doc string, useNum bool) {
	cfg := std.Config(false)
	whole := p.Text()
	src := lib.Decode(doc, useNum)
	if c.K%8 == 5 {
		// the maximally shared form of the document: equal sub-containers are ONE map / slice, reachable along several
		// routes (the relation speaks of the values P selects and of every container in pre-order - once per route)
		var n int
		if src, n = lib.HashCons(src); n > 0 {
			c.Cover("doc:shared-sub-containers")
		}
	}
	full := lib.Retrieve(whole, src, cfg)
	if full.Panic != nil {
		c.Violation("panic "+whole+"\x00"+doc, fmt.Sprintf("Retrieve panicked: %v", full.Panic), map[string]interface{}{"path": whole, "document": doc, "stack": full.Stack})
		return
	}
	kinds := gen.StepKinds(p)
	ki := 0 // index into kinds of the kind starting at step k
	for k := 0; k <= len(p.Steps); k++ {
		if k > 0 && p.Steps[k-1].Kind == spec.KRec {
			continue // never split between `..` and its operand
		}
		P := &spec.Path{Root: p.Root, Steps: p.Steps[:k]}
		Q := &spec.Path{Root: '$', Steps: p.Steps[k:], Funcs: p.Funcs}
		curKind := ki
		if k < len(p.Steps) {
			ki++
		}
		if P.Root == 0 && k == 0 {
			continue
		}
		if hasRootOrAggr(Q) {
			continue
		}
		pt, qt := P.Text(), Q.Text()
		left, right := "root", "end"
		if curKind > 0 {
			left = kinds[curKind-1]
		}
		if curKind < len(kinds) {
			right = kinds[curKind]
		} else if len(p.Funcs) > 0 {
			right = "fn"
		}
		c.Cover("split:" + left + "|" + right)
		pres := lib.Retrieve(pt, src, cfg)
		var cat []interface{}
		bad := pres.Panic != nil
		for _, v := range pres.Res {
			o := lib.Retrieve(qt, v, cfg)
			bad = bad || o.Panic != nil
			cat = append(cat, o.Res...)
		}
		key := fmt.Sprintf("%s = %s + %s on %s num=%v", whole, pt, qt, doc, useNum)
		det := map[string]interface{}{"path": whole, "P": pt, "Q": qt, "document": doc, "use_number": useNum, "whole_result": full.String(), "P_result": pres.String(), "concatenation": lib.JS(cat)}
		if bad {
			c.Violation("panic "+key, "a retrieval of the relation panicked", det)
			continue
		}
		if len(cat) > 0 {
			c.Cover("relation:nonempty")
			if k > 0 && k < len(p.Steps)+len(p.Funcs) {
				c.NonTrivial(key)
				if c.WantSample() && c.K%19 == 0 {
					c.Sample(map[string]interface{}{"whole": whole, "P": pt, "Q": qt, "document": short(doc, 160), "result": short(full.String(), 160)})
				}
			}
		} else {
			c.Cover("relation:empty")
		}
		switch {
		case full.Err != nil && len(cat) > 0:
			c.Violation("fails-but-parts-select "+key, "P·Q fails although Q applied to the values P selects yields results", det)
		case full.Err == nil && !lib.SameList(full.Res, cat):
			c.Violation("differs "+key, "P·Q differs from the concatenation of Q applied to each value P selects", det)
		}
		// the two "in particular" clauses of the property, checked on every value v that P selects:
		// a union / multi-name selector equals the concatenation of its single selectors, and
		// `..X` equals X applied to every container below v in pre-order
		if k < len(p.Steps) && pres.Panic == nil {
			decompose(c, p, k, pres.Res, cfg, doc)
		}
	}
}

// containersPreOrder lists v and every container below it in pre-order (object members in key order).
func containersPreOrder(v interface{}, out *[]interface{}) {
	switch t := v.(type) {
	case map[string]interface{}:
		*out = append(*out, v)
		for _, k := range sortedKeysOf(t) {
			containersPreOrder(t[k], out)
		}
	case []interface{}:
		*out = append(*out, v)
		for _, x := range t {
			containersPreOrder(x, out)
		}
	}
}

func decompose(c *harness.Ctx, p *spec.Path, k int, parents []interface{}, cfg jsonpath.Config, doc string) {
	st := &p.Steps[k]
	rest := func(from int) *spec.Path { return &spec.Path{Root: '$', Steps: p.Steps[from:], Funcs: p.Funcs} }
	var singles []spec.Step
	what := ""
	switch {
	case st.Kind == spec.KMulti:
		what = "multi-name selector = concatenation of its single selectors"
		for _, it := range st.Items {
			if it.Wild {
				singles = append(singles, spec.Step{Kind: spec.KWild, Bracket: true})
			} else {
				singles = append(singles, spec.Step{Kind: spec.KName, Key: it.Key, Bracket: true})
			}
		}
	case st.Kind == spec.KUnion && len(st.Subs) > 1:
		what = "union = concatenation of its single subscripts"
		for _, su := range st.Subs {
			singles = append(singles, gen.NormalizeUnion([]spec.Sub{su}))
		}
	case st.Kind == spec.KRec:
		what = "`..X` = X applied to every container in pre-order"
	default:
		return
	}
	if hasRootOrAggr(rest(k)) {
		return
	}
	wholeText := rest(k).Text()
	for _, v := range parents {
		whole := lib.Retrieve(wholeText, v, cfg)
		var cat []interface{}
		var parts []string
		bad := whole.Panic != nil
		if st.Kind == spec.KRec {
			inner := rest(k + 1)
			innerText := inner.Text()
			var conts []interface{}
			containersPreOrder(v, &conts)
			for _, ct := range conts {
				_, isMap := ct.(map[string]interface{})
				switch p.Steps[k+1].Kind {
				case spec.KName:
					if !isMap {
						continue
					}
				case spec.KUnion:
					if isMap {
						continue
					}
				}
				o := lib.Retrieve(innerText, ct, cfg)
				bad = bad || o.Panic != nil
				cat = append(cat, o.Res...)
			}
			parts = append(parts, innerText+" on each of the "+fmt.Sprint(len(conts))+" containers")
			if _, isCont := v.(map[string]interface{}); !isCont {
				if _, isList := v.([]interface{}); !isList {
					continue // `..` on a scalar is a type error, nothing to decompose
				}
			}
		} else {
			for _, sg := range singles {
				q := &spec.Path{Root: '$', Steps: append([]spec.Step{sg}, p.Steps[k+1:]...), Funcs: p.Funcs}
				t := q.Text()
				parts = append(parts, t)
				o := lib.Retrieve(t, v, cfg)
				bad = bad || o.Panic != nil
				cat = append(cat, o.Res...)
			}
			if _, isList := v.([]interface{}); st.Kind == spec.KUnion && !isList {
				continue // a union applies to arrays only (its `*` subscript is not the wildcard selector)
			}
			if st.Kind == spec.KMulti {
				allWild := true
				for _, it := range st.Items {
					allWild = allWild && it.Wild
				}
				if _, isList := v.([]interface{}); isList && !allWild {
					continue // a multi-name selector with a name applies to objects only
				}
			}
		}
		c.Cover("decompose:" + st.Kind.String())
		key := fmt.Sprintf("decompose %s on %s", wholeText, lib.JS(v))
		det := map[string]interface{}{"relation": what, "path": wholeText, "value": lib.JS(v), "document": doc, "whole": whole.String(), "parts": parts, "concatenation": lib.JS(cat)}
		switch {
		case bad:
			c.Violation("panic "+key, "a retrieval of the relation panicked", det)
		case whole.Err != nil && len(cat) > 0:
			c.Violation("fails-but-parts-select "+key, "the selector fails although its single selectors select values: "+what, det)
		case whole.Err == nil && !lib.SameList(whole.Res, cat):
			c.Violation("differs "+key, "violated: "+what, det)
		}
	}
}
