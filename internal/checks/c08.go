package checks

import (
	"fmt"

	"verif/internal/gen"
	"verif/internal/harness"
	"verif/internal/lib"
	"verif/internal/spec"
)

// hasRootOrAggr: Q may not contain a $-rooted filter operand or an aggregate function.
func hasRootOrAggr(p *spec.Path) bool {
	for _, f := range p.Funcs {
		if _, ok := std.Aggr[f]; ok {
			return true
		}
	}
	bad := false
	for i := range p.Steps {
		if p.Steps[i].Kind == spec.KFilter {
			p.Steps[i].Q.Walk(func(sub *spec.Path) {
				if sub.Root == '$' {
					bad = true
				}
				for _, f := range sub.Funcs {
					if _, ok := std.Aggr[f]; ok {
						bad = true
					}
				}
			})
		}
	}
	return bad
}

// C08 — steps compose: P·Q(doc) = concat over v in P(doc) of $·Q(v).
func init() {
	harness.Register(&harness.Check{
		ID:    "C08",
		Level: "exploration",
		Rule: "case = one (path, document): systematic step-kind sequences (<=2 / <=3 kinds, with filter-function suffixes) x battery documents, then random ASTs on " +
			"path-directed documents; for EVERY split point k (not between `..` and its operand; Q without $-rooted operand or aggregate) three real retrievals are " +
			"compared: Retrieve(P·Q, doc) must equal the concatenation in order of Retrieve($·Q, v) for v in Retrieve(P, doc), and fail exactly when that concatenation " +
			"is empty; no reference model involved; non-trivial = the concatenation is non-empty and P selects >= 1 value with at least one step on each side; " +
			"distinct = distinct (path, split, document)",
		Assumptions: []string{"values selected by P are passed to the second retrieval as they are (shared sub-documents, not copies)"},
		Plan: func(tier string, seed int64) *harness.Plan {
			var paths []*spec.Path
			if tier == "thorough" {
				paths = gen.SysPaths(3, 2, fnF, fnG)
			} else {
				paths = gen.SysPaths(2, 2, fnF, fnG)
			}
			nSys := len(paths) * len(gen.Battery)
			return &harness.Plan{
				N:     nSys + size(tier, 100000, 1500000),
				Setup: func(c *harness.Ctx) { hooksOn() },
				Run: func(c *harness.Ctx, k int) {
					hooksAlternate(k)
					var p *spec.Path
					var doc string
					if k < nSys {
						p, doc = paths[k/len(gen.Battery)], gen.Battery[k%len(gen.Battery)]
					} else {
						r := c.Rand()
						g := gen.New(r)
						g.Aggrs = nil // aggregates are excluded from Q anyway; keep every split usable
						p = g.Path(5, 2)
						if r.Intn(4) == 0 {
							doc = lib.JS(g.Doc(5))
						} else {
							doc = lib.JS(g.DocFor(p))
						}
					}
					runC08(c, p, doc, k%2 == 1)
				},
				Finish:   reportHooks,
				Required: []string{"split:rec+multi|name", "split:rec+name|filter", "split:multi|name", "split:union|filter", "relation:nonempty", "relation:empty"},
			}
		},
	})
}

func runC08(c *harness.Ctx, p *spec.Path, doc string, useNum bool) {
	cfg := std.Config(false)
	whole := p.Text()
	src := lib.Decode(doc, useNum)
	full := lib.Retrieve(whole, src, cfg)
	if full.Panic != nil {
		c.Violation("panic "+whole+"\x00"+doc, fmt.Sprintf("Retrieve panicked: %v", full.Panic), map[string]interface{}{"path": whole, "document": doc, "stack": full.Stack})
		return
	}
	kinds := gen.StepKinds(p)
	ki := 0 // index into kinds of the kind starting at step k
	for k := 0; k <= len(p.Steps); k++ {
		if k > 0 && p.Steps[k-1].Kind == spec.KRec {
			continue // never split between `..` and its operand
		}
		P := &spec.Path{Root: p.Root, Steps: p.Steps[:k]}
		Q := &spec.Path{Root: '$', Steps: p.Steps[k:], Funcs: p.Funcs}
		curKind := ki
		if k < len(p.Steps) {
			ki++
		}
		if P.Root == 0 && k == 0 {
			continue
		}
		if hasRootOrAggr(Q) {
			continue
		}
		pt, qt := P.Text(), Q.Text()
		left, right := "root", "end"
		if curKind > 0 {
			left = kinds[curKind-1]
		}
		if curKind < len(kinds) {
			right = kinds[curKind]
		} else if len(p.Funcs) > 0 {
			right = "fn"
		}
		c.Cover("split:" + left + "|" + right)
		pres := lib.Retrieve(pt, src, cfg)
		var cat []interface{}
		bad := pres.Panic != nil
		for _, v := range pres.Res {
			o := lib.Retrieve(qt, v, cfg)
			bad = bad || o.Panic != nil
			cat = append(cat, o.Res...)
		}
		key := fmt.Sprintf("%s = %s + %s on %s num=%v", whole, pt, qt, doc, useNum)
		det := map[string]interface{}{"path": whole, "P": pt, "Q": qt, "document": doc, "use_number": useNum, "whole_result": full.String(), "P_result": pres.String(), "concatenation": lib.JS(cat)}
		if bad {
			c.Violation("panic "+key, "a retrieval of the relation panicked", det)
			continue
		}
		if len(cat) > 0 {
			c.Cover("relation:nonempty")
			if k > 0 && k < len(p.Steps)+len(p.Funcs) {
				c.NonTrivial(key)
				if c.WantSample() && c.K%19 == 0 {
					c.Sample(map[string]interface{}{"whole": whole, "P": pt, "Q": qt, "document": short(doc, 160), "result": short(full.String(), 160)})
				}
			}
		} else {
			c.Cover("relation:empty")
		}
		switch {
		case full.Err != nil && len(cat) > 0:
			c.Violation("fails-but-parts-select "+key, "P·Q fails although Q applied to the values P selects yields results", det)
		case full.Err == nil && !lib.SameList(full.Res, cat):
			c.Violation("differs "+key, "P·Q differs from the concatenation of Q applied to each value P selects", det)
		}
	}
}
