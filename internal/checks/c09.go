package checks

import (
	"encoding/json"
	"fmt"
	"math"
	"math/rand"
	"reflect"
	"sort"

	"verif/internal/gen"
	"verif/internal/harness"
	"verif/internal/lib"
	"verif/internal/spec"
)

// memberSet: a container (array or object) of pairwise non-DeepEqual members,
// so that a returned value identifies its member.
type memberSet struct {
	members []interface{}
	obj     bool
	root    map[string]interface{} // extra root members ($.x, $.y) when the container is nested under "m"
	respell func(js string) string // optional: other spellings of the document's numbers (same values)
	nan     bool                   // the sentinel number nanSentinel stands for NaN (float64 NaN / json.Number("NaN")): no JSON text spells it
}

// nanSentinel is written into generated members where the decoded document is to hold NaN.
const nanSentinel = 12345.5

func plantNaN(v interface{}) interface{} {
	switch t := v.(type) {
	case float64:
		if t == nanSentinel {
			return math.NaN()
		}
	case json.Number:
		if t == "12345.5" {
			return json.Number("NaN")
		}
	case map[string]interface{}:
		for k, x := range t {
			t[k] = plantNaN(x)
		}
	case []interface{}:
		for i, x := range t {
			t[i] = plantNaN(x)
		}
	}
	return v
}

// selection runs `$.m[?(q)]` (or `$[?(q)]`) and maps the result back to member indices.
// ok=false: the result is not an in-order sub-sequence of the members.
func (ms *memberSet) doc(useNum bool) (interface{}, string) {
	var cont interface{} = ms.members
	if ms.obj {
		m := map[string]interface{}{}
		for i, v := range ms.members {
			m[fmt.Sprintf("k%02d", i)] = v
		}
		cont = m
	}
	root := map[string]interface{}{"m": cont}
	for k, v := range ms.root {
		root[k] = v
	}
	js := lib.JS(root)
	if ms.respell != nil {
		js = ms.respell(js)
	}
	if ms.nan {
		return plantNaN(lib.Decode(js, useNum)), js + " (12345.5 stands for NaN)"
	}
	return lib.Decode(js, useNum), js
}

func selPath(q *spec.Query) *spec.Path {
	return &spec.Path{Root: '$', Steps: []spec.Step{{Kind: spec.KName, Key: "m"}, {Kind: spec.KFilter, Q: q}}}
}

type selection struct {
	idx   []int
	ok    bool
	panic interface{}
	text  string
	raw   string
}

func (ms *memberSet) sel(q *spec.Query, useNum bool) selection {
	doc, _ := ms.doc(useNum)
	p := selPath(q)
	s := selection{text: p.Text(), ok: true}
	o := lib.Retrieve(s.text, doc, std.Config(false))
	s.raw = o.String()
	if o.Panic != nil {
		s.panic = o.Panic
		s.ok = false
		return s
	}
	if o.Err != nil {
		return s // empty selection
	}
	// members as decoded (same order: array order / sorted k%02d keys)
	var decoded []interface{}
	switch t := doc.(map[string]interface{})["m"].(type) {
	case []interface{}:
		decoded = t
	case map[string]interface{}:
		ks := make([]string, 0, len(t))
		for k := range t {
			ks = append(ks, k)
		}
		sort.Strings(ks)
		for _, k := range ks {
			decoded = append(decoded, t[k])
		}
	}
	j := 0
	for i, m := range decoded {
		if j < len(o.Res) && reflect.DeepEqual(o.Res[j], m) {
			s.idx = append(s.idx, i)
			j++
		}
	}
	if j != len(o.Res) {
		s.ok = false // not a sub-sequence in container order
	}
	return s
}

func asSet(a []int) map[int]bool {
	m := map[int]bool{}
	for _, x := range a {
		m[x] = true
	}
	return m
}

func setEq(a, b map[int]bool) bool { return reflect.DeepEqual(a, b) }

func setString(m map[int]bool) string {
	var ks []int
	for k := range m {
		ks = append(ks, k)
	}
	sort.Ints(ks)
	return fmt.Sprint(ks)
}

func numLit(r *rand.Rand) float64 { return []float64{0, 1, 2, 1.5, -1}[r.Intn(5)] }

func randomMembers(r *rand.Rand, g *gen.Gen) *memberSet {
	ms := &memberSet{obj: r.Intn(2) == 0, root: map[string]interface{}{}}
	n := r.Intn(7)
	long := r.Intn(12) == 0 // containers beyond the small sizes: 17..40 members, told apart by an extra member "n"
	if long {
		n = 17 + r.Intn(24)
	}
	seen := map[string]bool{}
	for tries := 0; len(ms.members) < n && tries < 400; tries++ {
		var v interface{}
		switch r.Intn(4) {
		case 0:
			v = g.Doc(2)
		case 1:
			v = []interface{}{g.Leaf(), g.Leaf()}[:1+r.Intn(2)]
		default:
			o := map[string]interface{}{}
			for _, k := range []string{"a", "b"} {
				switch r.Intn(5) {
				case 0:
				case 1:
					o[k] = map[string]interface{}{"a": g.Leaf()}
				default:
					o[k] = g.Leaf()
				}
			}
			if r.Intn(12) == 0 {
				// a number that is not ordered with respect to any other: NaN (only ever INSIDE a member, members are told apart by identity)
				o[[]string{"a", "b"}[r.Intn(2)]] = nanSentinel
				ms.nan = true
			}
			v = o
		}
		if long {
			o, ok := v.(map[string]interface{})
			if !ok {
				continue
			}
			o["n"] = float64(len(ms.members))
		}
		js := lib.JS(v)
		if seen[js] {
			continue
		}
		seen[js] = true
		ms.members = append(ms.members, v)
	}
	if r.Intn(4) > 0 {
		ms.root["x"] = g.Leaf()
		if r.Intn(3) == 0 {
			ms.root["x"] = []interface{}{g.Leaf(), g.Leaf()}
		}
	}
	if r.Intn(2) == 0 {
		ms.root["y"] = []interface{}{g.Leaf()}
	}
	if r.Intn(3) == 0 {
		ms.root["a"] = g.Leaf()
	}
	return ms
}

// C09 — filter logic is Boolean algebra; comparisons obey their dualities.
func init() {
	harness.Register(&harness.Check{
		ID:    "C09",
		Level: "exploration",
		Rule: "case = one container (array or object of 0..6 — one case in twelve 17..40 — pairwise distinct members that hit, miss or mistype the operand paths, plus root members for $-operands) and " +
			"sub-expressions A, B drawn from the systematic atoms (existence, every valid comparison of 6 operators x 13 operand kinds x both orders, regex) and from random queries " +
			"(depth <=3, parentheses); checked relations between selected-member sets of real retrievals: sel(A&&B)=sel(A)∩sel(B), sel(A||B)=sel(A)∪sel(B), sel(!p)=all∖sel(p), " +
			"sel(x!=y)=all∖sel(x==y), mirrored operators with swapped operands select the same, against a number literal <=/>= = (</>) ∪ ==, every selection is an in-order " +
			"sub-sequence of the container; non-trivial = at least one of the compared selections is neither empty nor everything; distinct = distinct (A, B, container)",
		Assumptions: []string{"members are pairwise non-DeepEqual so a returned value identifies its member", "a retrieval that fails (member did not exist on the filter) is the empty selection"},
		Plan: func(tier string, seed int64) *harness.Plan {
			var atoms []*spec.Query
			for _, q := range gen.SysComparisons(fnF, fnG, true) {
				atoms = append(atoms, q)
			}
			atoms = append(atoms, gen.Atoms()...)
			return &harness.Plan{
				N:     size(tier, 150000, 3000000),
				Setup: func(c *harness.Ctx) { hooksOn() },
				Run: func(c *harness.Ctx, k int) {
					hooksAlternate(k)
					runC09(c, atoms)
				},
				Finish: reportHooks,
				Required: []string{"rel:and", "rel:or", "rel:not", "rel:ne", "rel:mirror:<", "rel:mirror:<=", "rel:mirror:>", "rel:mirror:>=", "rel:mirror:==", "rel:mirror:!=",
					"rel:le-union", "rel:ge-union", "container:array", "container:object", "members:0", "members:6"},
			}
		},
	})
}

var mirrorOp = map[string]string{"==": "==", "!=": "!=", "<": ">", ">": "<", "<=": ">=", ">=": "<="}

func runC09(c *harness.Ctx, atoms []*spec.Query) {
	r := c.Rand()
	g := gen.New(r)
	ms := randomMembers(r, g)
	useNum := r.Intn(3) == 0
	if ms.obj {
		c.Cover("container:object")
	} else {
		c.Cover("container:array")
	}
	c.Cover(fmt.Sprintf("members:%d", len(ms.members)))
	all := map[int]bool{}
	for i := range ms.members {
		all[i] = true
	}
	_, docJS := ms.doc(false)
	pick := func() *spec.Query {
		if r.Intn(2) == 0 {
			q := atoms[r.Intn(len(atoms))]
			// systematic operands use $.x/$.y/@.a/@[0]
			return q
		}
		if r.Intn(2) == 0 {
			// simple member comparison: @.a / @.b / @ against a literal of any type or a root member
			lo := spec.Operand{P: &spec.Path{Root: '@', Steps: []spec.Step{{Kind: spec.KName, Key: []string{"a", "b"}[r.Intn(2)]}}}}
			if r.Intn(5) == 0 {
				lo = spec.Operand{P: &spec.Path{Root: '@'}}
			}
			op := gen.CmpOps[r.Intn(len(gen.CmpOps))]
			var ro spec.Operand
			switch {
			case r.Intn(4) == 0:
				ro = spec.Operand{P: &spec.Path{Root: '$', Steps: []spec.Step{{Kind: spec.KName, Key: []string{"x", "a"}[r.Intn(2)]}}}}
			case op == "==" || op == "!=":
				ro = []spec.Operand{gen.NumLit(numLit(r), ""), gen.StrLit([]string{"a", "b", "", "1"}[r.Intn(4)], false), {IsLit: true, Lit: r.Intn(2) == 0, LitText: ""}, {IsLit: true, Lit: nil, LitText: "null"}}[r.Intn(4)]
				if b, ok := ro.Lit.(bool); ok {
					ro.LitText = fmt.Sprint(b)
				}
			default:
				ro = gen.NumLit(numLit(r), "")
			}
			if r.Intn(2) == 0 {
				lo, ro = ro, lo
			}
			return &spec.Query{Op: spec.QCmp, Cmp: op, LO: lo, RO: ro}
		}
		return g.Query(2, 1)
	}
	interesting := false
	check := func(rel, what string, got selection, want map[int]bool, parts ...selection) {
		c.Cover("rel:" + rel)
		key := fmt.Sprintf("%s %s on %s num=%v", rel, got.text, docJS, useNum)
		det := map[string]interface{}{"relation": what, "document": docJS, "use_number": useNum, "query": got.text, "result": got.raw, "selected": fmt.Sprint(got.idx), "expected_selected": setString(want)}
		for i, p := range parts {
			det[fmt.Sprintf("part%d", i+1)] = map[string]interface{}{"query": p.text, "result": p.raw, "selected": fmt.Sprint(p.idx)}
		}
		for _, s := range append([]selection{got}, parts...) {
			if s.panic != nil {
				c.Violation("panic "+key, fmt.Sprintf("Retrieve panicked: %v", s.panic), det)
				return
			}
			if !s.ok {
				c.Violation("not-in-container-order "+s.text+" "+docJS, "a filter result is not an in-order sub-sequence of the container's members", det)
				return
			}
		}
		if len(want) > 0 && len(want) < len(all) {
			interesting = true
		}
		if !setEq(asSet(got.idx), want) {
			c.Violation(key, "filter algebra violated: "+what, det)
		}
	}
	complement := func(s selection) map[int]bool {
		out := map[int]bool{}
		for k := range all {
			if !asSet(s.idx)[k] {
				out[k] = true
			}
		}
		return out
	}

	A, B := pick(), pick()
	sa, sb := ms.sel(A, useNum), ms.sel(B, useNum)
	inter, union := map[int]bool{}, map[int]bool{}
	for k := range asSet(sa.idx) {
		union[k] = true
		if asSet(sb.idx)[k] {
			inter[k] = true
		}
	}
	for k := range asSet(sb.idx) {
		union[k] = true
	}
	check("and", "sel(A && B) = sel(A) ∩ sel(B)", ms.sel(&spec.Query{Op: spec.QAnd, L: A, R: B}, useNum), inter, sa, sb)
	check("or", "sel(A || B) = sel(A) ∪ sel(B)", ms.sel(&spec.Query{Op: spec.QOr, L: A, R: B}, useNum), union, sa, sb)
	if r.Intn(3) == 0 {
		// one more level: (A || B) && C with parentheses, C && (A || B)
		C := pick()
		sc := ms.sel(C, useNum)
		w := map[int]bool{}
		for k := range union {
			if asSet(sc.idx)[k] {
				w[k] = true
			}
		}
		or := &spec.Query{Op: spec.QParen, L: &spec.Query{Op: spec.QOr, L: A, R: B}}
		check("and", "sel((A || B) && C) = (sel(A) ∪ sel(B)) ∩ sel(C)", ms.sel(&spec.Query{Op: spec.QAnd, L: or, R: C}, useNum), w, sa, sb, sc)
		check("and", "sel(C && (A || B)) = sel(C) ∩ (sel(A) ∪ sel(B))", ms.sel(&spec.Query{Op: spec.QAnd, L: C, R: or}, useNum), w, sa, sb, sc)
		// precedence: A || B && C parses as A || (B && C)
		w2 := map[int]bool{}
		for k := range asSet(sa.idx) {
			w2[k] = true
		}
		for k := range asSet(sb.idx) {
			if asSet(sc.idx)[k] {
				w2[k] = true
			}
		}
		check("or", "sel(A || B && C) = sel(A) ∪ (sel(B) ∩ sel(C))", ms.sel(&spec.Query{Op: spec.QOr, L: A, R: &spec.Query{Op: spec.QAnd, L: B, R: C}}, useNum), w2, sa, sb, sc)
	}

	for _, q := range []*spec.Query{A, B} {
		switch q.Op {
		case spec.QExist:
			s1 := ms.sel(q, useNum)
			check("not", "sel(!p) = members ∖ sel(p)", ms.sel(&spec.Query{Op: spec.QNot, P: q.P}, useNum), complement(s1), s1)
		case spec.QCmp:
			s1 := ms.sel(q, useNum)
			if gen.ValidComparison(mirrorOp[q.Cmp], q.RO, q.LO) {
				q2 := &spec.Query{Op: spec.QCmp, Cmp: mirrorOp[q.Cmp], LO: q.RO, RO: q.LO}
				check("mirror:"+q.Cmp, "swapping the operands while mirroring the operator does not change the selection", ms.sel(q2, useNum), asSet(s1.idx), s1)
			}
			if q.Cmp == "==" {
				q3 := &spec.Query{Op: spec.QCmp, Cmp: "!=", LO: q.LO, RO: q.RO}
				check("ne", "sel(x != y) = members ∖ sel(x == y)", ms.sel(q3, useNum), complement(s1), s1)
			}
			if q.Cmp == "!=" {
				q3 := &spec.Query{Op: spec.QCmp, Cmp: "==", LO: q.LO, RO: q.RO}
				s3 := ms.sel(q3, useNum)
				check("ne", "sel(x != y) = members ∖ sel(x == y)", s1, complement(s3), s3)
			}
			_, lnum := q.LO.Lit.(float64)
			_, rnum := q.RO.Lit.(float64)
			if (q.Cmp == "<=" || q.Cmp == ">=") && ((q.LO.IsLit && lnum) != (q.RO.IsLit && rnum)) {
				strict := ms.sel(&spec.Query{Op: spec.QCmp, Cmp: q.Cmp[:1], LO: q.LO, RO: q.RO}, useNum)
				eq := ms.sel(&spec.Query{Op: spec.QCmp, Cmp: "==", LO: q.LO, RO: q.RO}, useNum)
				u := asSet(strict.idx)
				for _, k := range eq.idx {
					u[k] = true
				}
				rel := "le-union"
				if q.Cmp == ">=" {
					rel = "ge-union"
				}
				check(rel, "against a number literal "+q.Cmp+" selects the union of "+q.Cmp[:1]+" and ==", s1, u, strict, eq)
			}
		}
	}
	if interesting {
		c.NonTrivial(sa.text + "\x00" + sb.text + "\x00" + docJS)
		if c.WantSample() && c.K%23 == 0 {
			c.Sample(map[string]interface{}{"A": sa.text, "B": sb.text, "document": short(docJS, 200), "sel_A": fmt.Sprint(sa.idx), "sel_B": fmt.Sprint(sb.idx)})
		}
	}
}
