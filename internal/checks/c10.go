package checks

import (
	"encoding/json"
	"fmt"
	"math/rand"
	"strconv"
	"strings"

	"verif/internal/gen"
	"verif/internal/harness"
	"verif/internal/lib"
	"verif/internal/spec"
)

var c10Nums = []float64{0, 1, 2, 1.5, -1, 100, 0.1, 1e21, 1e-7, 3}
var c10NumLits = []string{"0", "1", "1.0", "1e0", "+1", "2", "1.5", "15e-1", "-1", "100", "1e2", "0.1", "1e21", "1e-7", "3", "-0", "0.0"}
var c10Strs = []string{"a", "b", "", "1", "ab", "true", "null", "1.0", "ba", "aab", "11", "untrue"}

func c10Leaf(r *rand.Rand) interface{} {
	switch r.Intn(8) {
	case 0, 1, 2:
		return c10Nums[r.Intn(len(c10Nums))]
	case 3, 4:
		return c10Strs[r.Intn(len(c10Strs))]
	case 5:
		return r.Intn(2) == 0
	case 6:
		return nil
	}
	if r.Intn(2) == 0 {
		return []interface{}{c10Nums[r.Intn(len(c10Nums))]}
	}
	return map[string]interface{}{"a": c10Nums[r.Intn(len(c10Nums))]}
}

func c10Literal(r *rand.Rand, numeric bool) spec.Operand {
	k := r.Intn(6)
	if numeric {
		k = 0
	}
	switch k {
	case 0, 1:
		t := c10NumLits[r.Intn(len(c10NumLits))]
		v, _ := strconv.ParseFloat(t, 64)
		return gen.NumLit(v, t)
	case 2, 3:
		return gen.StrLit(c10Strs[r.Intn(len(c10Strs))], r.Intn(2) == 0)
	case 4:
		b := r.Intn(2) == 0
		return spec.Operand{IsLit: true, Lit: b, LitText: fmt.Sprint(b)}
	}
	return spec.Operand{IsLit: true, Lit: nil, LitText: "null"}
}

// numSpellings: other JSON spellings of the numbers the documents use; every spelling of a row decodes to the same float64
// (capital E, explicit exponent sign, trailing zeros, a fraction that is zero, integers beyond int64, negative zero).
var numSpellings = map[string][]string{
	"0":     {"0.0", "-0", "0E0", "0e5", "-0.0e-3"},
	"1":     {"1.0", "1E0", "10e-1", "0.1E1", "1.000"},
	"2":     {"2.0", "2E0", "0.2E+1", "20E-1"},
	"1.5":   {"15E-1", "1.50", "0.15E1", "1.5E0", "1.5e+0"},
	"-1":    {"-1.0", "-1E0", "-10E-1", "-0.1e1"},
	"100":   {"1E2", "1e2", "100.0", "1.0E+2", "1E+2", "10E1", "0.1E3"},
	"0.1":   {"1E-1", "0.10", "1e-1", "10E-2", "0.01E1"},
	"1e+21": {"1E21", "1000000000000000000000", "1e21", "1000000000000000000000.0", "10E20"},
	"1e-7":  {"1E-7", "0.0000001", "1e-07", "10E-8", "0.1E-6"},
	"3":     {"3.0", "3E0", "30E-1"},
}

// respellNumbers rewrites every number token of a canonical JSON text (outside strings) to one of its other spellings.
func respellNumbers(js string, r *rand.Rand) string {
	var b strings.Builder
	for i := 0; i < len(js); {
		ch := js[i]
		if ch == '"' {
			j := i + 1
			for j < len(js) && js[j] != '"' {
				if js[j] == '\\' {
					j++
				}
				j++
			}
			b.WriteString(js[i : j+1])
			i = j + 1
			continue
		}
		if ch == '-' || ch >= '0' && ch <= '9' {
			j := i
			for j < len(js) && strings.IndexByte("+-0123456789.eE", js[j]) >= 0 {
				j++
			}
			tok := js[i:j]
			if alts, ok := numSpellings[tok]; ok && r.Intn(4) > 0 {
				tok = alts[r.Intn(len(alts))]
			}
			b.WriteString(tok)
			i = j
			continue
		}
		b.WriteByte(ch)
		i++
	}
	return b.String()
}

// comparesTwoPaths: the query contains == or != between two paths (there json.Number spellings legitimately matter).
func comparesTwoPaths(q *spec.Query) bool {
	found := false
	var walk func(q *spec.Query)
	walkPath := func(p *spec.Path) {
		if p != nil {
			p.WalkQueries(func(q *spec.Query) {
				if q.Op == spec.QCmp && !q.LO.IsLit && !q.RO.IsLit && (q.Cmp == "==" || q.Cmp == "!=") {
					found = true
				}
			})
		}
	}
	walk = func(q *spec.Query) {
		if q == nil {
			return
		}
		if q.Op == spec.QCmp && !q.LO.IsLit && !q.RO.IsLit && (q.Cmp == "==" || q.Cmp == "!=") {
			found = true
		}
		walk(q.L)
		walk(q.R)
		walkPath(q.P)
		walkPath(q.LO.P)
		walkPath(q.RO.P)
	}
	walk(q)
	return found
}

// typeClass of a decoded JSON value: number / string / bool / null / other.
func typeClass(v interface{}) string {
	switch v.(type) {
	case float64, json.Number:
		return "number"
	case string:
		return "string"
	case bool:
		return "bool"
	case nil:
		return "null"
	}
	return "other"
}

// normalise maps json.Number to float64 everywhere (for comparing outputs of the two decode modes).
func normalise(v interface{}) interface{} {
	switch t := v.(type) {
	case json.Number:
		f, _ := t.Float64()
		return f
	case map[string]interface{}:
		m := make(map[string]interface{}, len(t))
		for k, x := range t {
			m[k] = normalise(x)
		}
		return m
	case []interface{}:
		l := make([]interface{}, len(t))
		for i, x := range t {
			l[i] = normalise(x)
		}
		return l
	}
	return v
}

// C10 — comparisons are type-strict and numeric by value, whatever the number decoding.
func init() {
	harness.Register(&harness.Check{
		ID:    "C10",
		Level: "exploration",
		Rule: "case = one comparison filter (6 operators + regex; operands: literal of each JSON type incl. 17 number spellings, @, @.a, @[0], $.x, a missing path; both orders; " +
			"plus every valid systematic comparison) over a container of 1..7 members (one case in twelve 17..40) holding every JSON type; unless the query compares two paths with ==/!=, half of the documents are re-spelled before decoding (each number in another JSON spelling of the same float64: 1E2, 100.0, 1.0E+2, 1000000000000000000000, -0, 0e5 ...); judged: (a) the selection under float64 decoding equals the selection " +
			"under json.Number decoding, (b) every member selected by == < <= > >= =~ against a literal holds an operand of the literal's JSON type (number for ordering, string for " +
			"regex), members whose operand is missing or of another type are never selected by those and always by !=, a comparison with an absent $-operand selects nothing " +
			"(everything for !=; everything for == only when the other path is absent for every member too), (c) SPEC agrees in both decode modes; " +
			"non-trivial = the selection is neither empty nor everything; distinct = distinct (query, container)",
		Assumptions: []string{"for path == path the number texts in documents are Go's shortest float formatting, so json.Number text equality coincides with numeric equality (the property's own restriction); every other query also sees other spellings", "members are pairwise distinct"},
		Plan: func(tier string, seed int64) *harness.Plan {
			// path == path is decided by deep equality of the two values; when one side is the
			// output of a user function its number representation is the function's choice, not
			// the document's, so such comparisons are outside this property's quantifier
			var sysq []*spec.Query
			for _, q := range gen.SysComparisons(fnF, fnG, true) {
				fn := func(o spec.Operand) bool { return !o.IsLit && len(o.P.Funcs) > 0 }
				if q.Op == spec.QCmp && !q.LO.IsLit && !q.RO.IsLit && (fn(q.LO) || fn(q.RO)) {
					continue
				}
				sysq = append(sysq, q)
			}
			return &harness.Plan{
				N:     size(tier, 150000, 8000000),
				Setup: func(c *harness.Ctx) { hooksOn() },
				Run: func(c *harness.Ctx, k int) {
					hooksAlternate(k) // key / container poison also hides a library that wrongly re-uses a recycled buffer's content: every second case runs without
					runC10(c, sysq)
				},
				Finish: reportHooks,
				Required: []string{"op:==", "op:!=", "op:<", "op:<=", "op:>", "op:>=", "op:=~", "lit:number", "lit:string", "lit:bool", "lit:null", "order:lit-left", "order:lit-right",
					"operand:absent-root", "strict:selected-typed", "strict:mistyped-not-selected", "decode:agree-nonempty", "decode:respelled-numbers"},
			}
		},
	})
}

func runC10(c *harness.Ctx, sysq []*spec.Query) {
	r := c.Rand()
	// container
	ms := &memberSet{obj: r.Intn(3) == 0, root: map[string]interface{}{}}
	seen := map[string]bool{}
	n := 1 + r.Intn(7)
	long := r.Intn(12) == 0 // containers beyond the small sizes: 17..40 members, told apart by an extra member "n"
	if long {
		n = 17 + r.Intn(24)
	}
	for tries := 0; len(ms.members) < n && tries < 400; tries++ {
		var v interface{}
		switch r.Intn(4) {
		case 0:
			v = c10Leaf(r)
		case 1:
			v = []interface{}{c10Leaf(r)}
		default:
			o := map[string]interface{}{}
			if r.Intn(5) > 0 {
				o["a"] = c10Leaf(r)
			}
			if r.Intn(3) == 0 {
				o["b"] = c10Leaf(r)
			}
			v = o
		}
		if long {
			o, ok := v.(map[string]interface{})
			if !ok {
				continue
			}
			o["n"] = float64(1000 + len(ms.members)) // never equal to a number of the pools
		}
		js := lib.JS(v)
		if !seen[js] {
			seen[js] = true
			ms.members = append(ms.members, v)
		}
	}
	if r.Intn(4) > 0 {
		ms.root["x"] = c10Leaf(r)
	}
	if r.Intn(2) == 0 {
		ms.root["y"] = []interface{}{c10Leaf(r)}
	}

	// query
	var q *spec.Query
	model := false // the explicit strictness model applies (simple operand vs literal / root path)
	var atKind string
	if r.Intn(4) == 0 {
		q = sysq[r.Intn(len(sysq))]
	} else {
		model = true
		atKind = []string{"@", "@.a", "@[0]"}[r.Intn(3)]
		at := &spec.Path{Root: '@'}
		switch atKind {
		case "@.a":
			at.Steps = []spec.Step{{Kind: spec.KName, Key: "a"}}
		case "@[0]":
			at.Steps = []spec.Step{{Kind: spec.KUnion, Subs: []spec.Sub{{Kind: spec.SIndex, N: 0}}}}
		}
		if r.Intn(7) == 0 {
			q = &spec.Query{Op: spec.QRegex, P: at, Re: []string{"a", "^1", "", "^(true|null)$", ".", "^a$", "^1$", `\Aab\z`, "^true$", "b$"}[r.Intn(10)]}
		} else {
			op := gen.CmpOps[r.Intn(len(gen.CmpOps))]
			var other spec.Operand
			if r.Intn(4) == 0 {
				other = spec.Operand{P: &spec.Path{Root: '$', Steps: []spec.Step{{Kind: spec.KName, Key: []string{"x", "zz"}[r.Intn(2)]}}}}
			} else {
				other = c10Literal(r, op != "==" && op != "!=")
			}
			lo, ro := spec.Operand{P: at}, other
			if r.Intn(2) == 0 {
				lo, ro = ro, lo
			}
			q = &spec.Query{Op: spec.QCmp, Cmp: op, LO: lo, RO: ro}
		}
	}
	op := "=~"
	if q.Op == spec.QCmp {
		op = q.Cmp
		if q.LO.IsLit {
			c.Cover("order:lit-left")
			c.Cover("lit:" + typeClass(q.LO.Lit))
		}
		if q.RO.IsLit {
			c.Cover("order:lit-right")
			c.Cover("lit:" + typeClass(q.RO.Lit))
		}
	}
	c.Cover("op:" + op)
	if !comparesTwoPaths(q) && r.Intn(2) == 0 {
		// the same numbers in other JSON spellings (json.Number keeps the text: 1E2, 100.0, 1000000000000000000000 ...)
		rs := rand.New(rand.NewSource(r.Int63()))
		var memo string
		ms.respell = func(js string) string {
			if memo == "" {
				memo = respellNumbers(js, rs)
			}
			return memo
		}
		c.Cover("decode:respelled-numbers")
	}

	sf, sn := ms.sel(q, false), ms.sel(q, true)
	_, docJS := ms.doc(false)
	key := sf.text + "\x00" + docJS
	det := map[string]interface{}{"query": sf.text, "document": docJS, "float64_result": sf.raw, "json_number_result": sn.raw}
	if sf.panic != nil || sn.panic != nil {
		c.Violation("panic "+key, "Retrieve panicked", det)
		return
	}
	if !sf.ok || !sn.ok {
		c.Violation("order "+key, "a filter result is not an in-order sub-sequence of the container", det)
		return
	}
	if len(sf.idx) > 0 && len(sf.idx) < len(ms.members) {
		c.NonTrivial(key)
		if c.WantSample() && c.K%29 == 0 {
			c.Sample(map[string]interface{}{"query": sf.text, "document": short(docJS, 200), "selected_members": fmt.Sprint(sf.idx)})
		}
	}
	// (a) decode-mode parity
	if !setEq(asSet(sf.idx), asSet(sn.idx)) {
		c.Violation("decode-mode "+key, "the same document selects different members when decoded with json.Number than when decoded to float64", det)
		return
	}
	if len(sf.idx) > 0 {
		c.Cover("decode:agree-nonempty")
	}
	// (c) SPEC in both modes
	for _, useNum := range []bool{false, true} {
		doc, _ := ms.doc(useNum)
		ev := &spec.Evaluator{F: std.Spec()}
		p := selPath(q)
		res, _ := ev.Eval(p, doc, doc)
		var lo lib.Outcome
		if useNum {
			lo = lib.Retrieve(p.Text(), doc, std.Config(false))
		} else {
			lo = lib.Retrieve(p.Text(), doc, std.Config(false))
		}
		if (lo.Err == nil) != (len(res) > 0) || (lo.Err == nil && !lib.SameList(lo.Res, specValues(res))) {
			det["use_number"] = useNum
			det["spec"] = lib.JS(specValues(res))
			det["library"] = lo.String()
			c.Violation("spec "+key+fmt.Sprint(useNum), "the selection differs from the type-strict, numeric-by-value definition", det)
			return
		}
	}
	if !model {
		return
	}
	// (b) explicit strictness model
	operand := func(m interface{}) (interface{}, bool) {
		switch atKind {
		case "@":
			return m, true
		case "@.a":
			o, ok := m.(map[string]interface{})
			if !ok {
				return nil, false
			}
			v, ok := o["a"]
			return v, ok
		default:
			l, ok := m.([]interface{})
			if !ok || len(l) == 0 {
				return nil, false
			}
			return l[0], true
		}
	}
	selected := asSet(sf.idx)
	var lit *spec.Operand
	var rootOp *spec.Operand
	if q.Op == spec.QCmp {
		for _, o := range []*spec.Operand{&q.LO, &q.RO} {
			if o.IsLit {
				lit = o
			} else if o.P.Root == '$' {
				rootOp = o
			}
		}
	}
	wantClass := ""
	switch {
	case q.Op == spec.QRegex:
		wantClass = "string"
	case lit != nil && (op == "==" || op == "!="):
		wantClass = typeClass(lit.Lit)
	case op != "==" && op != "!=":
		wantClass = "number"
	}
	if rootOp != nil {
		_, present := ms.root[rootOp.P.Steps[0].Key]
		if !present {
			c.Cover("operand:absent-root")
			anyLeft := false
			for _, m := range ms.members {
				_, ok := operand(m)
				anyLeft = anyLeft || ok
			}
			want := map[int]bool{}
			if op == "!=" && anyLeft || op == "==" && !anyLeft {
				for i := range ms.members {
					want[i] = true
				}
			}
			if !setEq(selected, want) {
				det["rule"] = "a comparison whose $-rooted operand is absent selects nothing (all members for !=; all for == only if the other operand is absent everywhere)"
				c.Violation("absent-operand "+key, "comparison with an absent operand selected the wrong members", det)
			}
			return
		}
	}
	if wantClass == "" {
		return
	}
	for i, m := range ms.members {
		v, ok := operand(m)
		typed := ok && typeClass(v) == wantClass
		switch {
		case op == "!=":
			if !typed && lit != nil && !selected[i] {
				det["member"] = lib.JS(m)
				c.Violation("ne-untyped "+key, "`!=` against a literal must select a member whose operand is missing or of another type", det)
				return
			}
		default:
			if selected[i] && !typed {
				det["member"] = lib.JS(m)
				c.Violation("coerced "+key, fmt.Sprintf("a member whose operand is missing or not a %s was selected: the comparison coerced between JSON types", wantClass), det)
				return
			}
			if selected[i] {
				c.Cover("strict:selected-typed")
			} else if ok && !typed {
				c.Cover("strict:mistyped-not-selected")
			}
		}
	}
}
