package checks

import (
	"fmt"
	"reflect"
	"sort"

	"github.com/AsaiYusuke/jsonpath"
	"verif/internal/gen"
	"verif/internal/harness"
	"verif/internal/lib"
	"verif/internal/spec"
)

// funcBiased makes a generator that puts functions after every step kind and inside filter operands.
func funcBiased(g *gen.Gen) *gen.Gen {
	g.FuncP = 11
	return g
}

func logsEqual(a, b map[string][]string) (bool, string) {
	names := map[string]bool{}
	for n := range a {
		names[n] = true
	}
	for n := range b {
		names[n] = true
	}
	var ns []string
	for n := range names {
		ns = append(ns, n)
	}
	sort.Strings(ns)
	for _, n := range ns {
		if !reflect.DeepEqual(a[n], b[n]) {
			return false, n
		}
	}
	return true, ""
}

// C12 — accessor mode changes only the wrapping of results.
func init() {
	harness.Register(&harness.Check{
		ID:    "C12",
		Level: "exploration",
		Rule: "case = one (path, document): systematic step-kind sequences x 6 function suffixes x battery, every valid comparison / logical shape (function operands included) x filter " +
			"documents, then random ASTs biased to trailing functions (after every step kind) and functions inside filter operands, on path-directed documents; each evaluated once " +
			"without and once with Config.SetAccessorMode on two decodings of the same JSON, with identical recording user functions; judged: same error (type and text) or same " +
			"length, every accessor-mode result is an Accessor whose Get() deep-equals the plain result at the same index, the per-function argument logs (argument type and JSON) " +
			"are identical; non-trivial = the retrieval succeeds with a multi-step path, or a user function was called; distinct = distinct (path, document, decode mode)",
		Assumptions: []string{"recording wrappers around the standard deterministic function set"},
		Plan: func(tier string, seed int64) *harness.Plan {
			sys := newSysCases(tier)
			nRand := size(tier, 120000, 6000000)
			nStr := size(tier, 60000, 3000000)
			var src *strSource
			return &harness.Plan{
				N: sys.n() + nRand + nStr,
				Setup: func(c *harness.Ctx) {
					hooksOn()
					src = newStrSource()
				},
				Run: func(c *harness.Ctx, k int) {
					hooksAlternate(k) // key / container poison also hides a library that wrongly re-uses a recycled buffer's content: every second case runs without

					var d *diffCase
					if k < sys.n() {
						d = sys.get(k)
					} else if k >= sys.n()+nRand {
						if src.err != nil {
							return
						}
						r := c.Rand()
						var ok bool
						if d, ok = stringCase(c, r, gen.New(r), src); !ok {
							return
						}
					} else {
						r := c.Rand()
						d = randomCase(r, funcBiased(gen.New(r)), r.Intn(5) == 0)
					}
					runC12(c, d)
				},
				Finish:   reportHooks,
				Required: []string{"parity:values", "parity:error", "fn:after-multi", "fn:after-wild", "fn:after-filter", "fn:after-rec", "fn:in-filter", "fn:called"},
			}
		},
	})
}

func coverFuncPositions(c *harness.Ctx, p *spec.Path) {
	if len(p.Funcs) > 0 && len(p.Steps) > 0 {
		kinds := gen.StepKinds(p)
		last := kinds[len(kinds)-1]
		switch {
		case len(last) > 3 && last[:4] == "rec+":
			c.Cover("fn:after-rec")
		case last == "multi" || last == "multi-allwild":
			c.Cover("fn:after-multi")
		case last == "wild":
			c.Cover("fn:after-wild")
		case last == "filter":
			c.Cover("fn:after-filter")
		}
	}
	for i := range p.Steps {
		if p.Steps[i].Kind == spec.KFilter {
			p.Steps[i].Q.Walk(func(sub *spec.Path) {
				if len(sub.Funcs) > 0 {
					c.Cover("fn:in-filter")
				}
			})
		}
	}
}

func runC12(c *harness.Ctx, d *diffCase) {
	r1, r2 := lib.NewRecorder(), lib.NewRecorder()
	plain := lib.Retrieve(d.Text, lib.Decode(d.Doc, d.UseNum), std.Recording(r1).Config(false))
	acc := lib.Retrieve(d.Text, lib.Decode(d.Doc, d.UseNum), std.Recording(r2).Config(true))
	coverFuncPositions(c, d.P)
	det := d.detail(map[string]interface{}{"plain": plain.String(), "accessor_mode": acc.String()})
	key := d.key()
	if plain.Panic != nil || acc.Panic != nil {
		c.Violation("panic "+key, "Retrieve panicked", det)
		return
	}
	called := len(r1.Logs) > 0
	if called {
		c.Cover("fn:called")
	}
	if (plain.Err == nil && len(d.P.Steps) > 1) || called {
		c.NonTrivial(key)
		if c.WantSample() && c.K%31 == 0 {
			c.Sample(map[string]interface{}{"path": d.Text, "document": short(d.Doc, 160), "plain": short(plain.String(), 120), "function_calls": len(r1.Logs)})
		}
	}
	if ok, name := logsEqual(r1.Logs, r2.Logs); !ok {
		det["function"] = name
		det["plain_log"] = r1.Logs[name]
		det["accessor_log"] = r2.Logs[name]
		c.Violation("function-arguments "+key, "a user function saw different arguments in accessor mode than in plain mode", det)
		return
	}
	if (plain.Err == nil) != (acc.Err == nil) || (plain.Err != nil && lib.ErrString(plain.Err) != lib.ErrString(acc.Err)) {
		c.Violation("error-parity "+key, "the path fails differently (or only) in one of the two modes", det)
		return
	}
	if plain.Err != nil {
		c.Cover("parity:error")
		return
	}
	c.Cover("parity:values")
	if len(plain.Res) != len(acc.Res) {
		c.Violation("length "+key, "accessor mode returns a different number of results", det)
		return
	}
	for i := range plain.Res {
		a, ok := acc.Res[i].(jsonpath.Accessor)
		if !ok {
			det["index"] = i
			c.Violation("not-accessor "+key, fmt.Sprintf("result %d in accessor mode is a %T, not an Accessor", i, acc.Res[i]), det)
			return
		}
		if _, isAcc := plain.Res[i].(jsonpath.Accessor); isAcc {
			c.Violation("accessor-in-plain "+key, "plain mode returned an Accessor", det)
			return
		}
		var got interface{}
		func() {
			defer func() {
				if r := recover(); r != nil {
					got = fmt.Sprintf("Get panicked: %v", r)
				}
			}()
			got = a.Get()
		}()
		if !lib.Same(got, plain.Res[i]) {
			det["index"] = i
			c.Violation("get-differs "+key, fmt.Sprintf("Get() of accessor %d does not yield the value plain mode returns at that index", i), det)
			return
		}
	}
}
