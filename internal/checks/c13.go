package checks

import (
	"fmt"
	"time"

	"github.com/AsaiYusuke/jsonpath"
	"verif/internal/gen"
	"verif/internal/harness"
	"verif/internal/lib"
	"verif/internal/spec"
)

// distinctLeaves rewrites every leaf of d to a unique value of the same JSON type where
// that is possible (numbers, strings), so that a wrong location is visible in a diff.
func distinctLeaves(d interface{}, next *int) interface{} {
	switch t := d.(type) {
	case map[string]interface{}:
		for _, k := range sortedKeysOf(t) {
			t[k] = distinctLeaves(t[k], next)
		}
		return t
	case []interface{}:
		for i := range t {
			t[i] = distinctLeaves(t[i], next)
		}
		return t
	case float64:
		*next++
		return float64(1000 + *next)
	case string:
		*next++
		return fmt.Sprintf("%s#%d", t, *next)
	}
	return d
}

func sortedKeysOf(m map[string]interface{}) []string {
	ks := make([]string, 0, len(m))
	for k := range m {
		ks = append(ks, k)
	}
	// insertion sort is enough for tiny maps
	for i := 1; i < len(ks); i++ {
		for j := i; j > 0 && ks[j] < ks[j-1]; j-- {
			ks[j], ks[j-1] = ks[j-1], ks[j]
		}
	}
	return ks
}

// C13 — Accessor.Set writes exactly the selected location; Get is live.
func init() {
	harness.Register(&harness.Check{
		ID:    "C13",
		Level: "exploration",
		Rule: "case = one successful accessor-mode retrieval (systematic step-kind sequences x function suffixes x battery, random ASTs on path-directed documents whose number and string " +
			"leaves are made pairwise distinct, and the accepted strings of the hostile generators with their AST recovered from the grammar's parse tree); for EVERY result index i: on a fresh copy of the document Set(sentinel) through accessor i, then the whole document is compared with a copy " +
			"the harness mutated at the location SPEC predicts for result i; Get() after Set returns the sentinel; Get() after the harness writes a second sentinel directly into that " +
			"map entry / array element returns it; Set==nil exactly when SPEC's location is none (root, function output); non-trivial = a Set was exercised on a document with >= 3 leaves; " +
			"distinct = distinct (path, document, index)",
		Assumptions: []string{"SPEC's location of result i (parent container + key/index) defines 'the selected location'", "filters are evaluated before any Set, so writing a sentinel cannot change which members were selected"},
		Plan: func(tier string, seed int64) *harness.Plan {
			var paths []*spec.Path
			if tier == "thorough" {
				paths = gen.SysPaths(3, 1, fnF, fnG)
			} else {
				paths = gen.SysPaths(2, 1, fnF, fnG)
			}
			nSys := len(paths) * len(gen.Battery)
			nRand := size(tier, 80000, 3000000)
			nStr := size(tier, 40000, 1500000)
			var src *strSource
			return &harness.Plan{
				N: nSys + nRand + nStr,
				Setup: func(c *harness.Ctx) {
					hooksOn()
					src = newStrSource()
				},
				Run: func(c *harness.Ctx, k int) {
					hooksAlternate(k) // key / container poison also hides a library that wrongly re-uses a recycled buffer's content: every second case runs without

					var p *spec.Path
					var doc string
					if k < nSys {
						p, doc = paths[k/len(gen.Battery)], gen.Battery[k%len(gen.Battery)]
					} else if k >= nSys+nRand {
						if src.err != nil {
							return
						}
						r := c.Rand()
						d, ok := stringCase(c, r, gen.New(r), src)
						if !ok {
							return
						}
						runC13Text(c, d.P, d.Text, d.Doc, k%3 == 0)
						return
					} else {
						r := c.Rand()
						g := gen.New(r)
						p = g.Path(5, 2)
						d := g.DocFor(p)
						if r.Intn(2) == 0 {
							n := 0
							// only when the path has no literal comparisons that the renumbering would break: renumbering is applied to the JSON, SPEC and library both see it
							d = distinctLeaves(lib.Decode(lib.JS(d), false), &n)
						}
						doc = lib.JS(d)
					}
					runC13(c, p, doc, k%3 == 0)
				},
				Finish:   reportHooks,
				Required: []string{"loc:map", "accessor:held-across-other-retrievals", "loc:list", "loc:none", "set:exact", "get:live"},
			}
		},
	})
}

func countLeaves(v interface{}) int {
	switch t := v.(type) {
	case map[string]interface{}:
		n := 0
		for _, x := range t {
			n += countLeaves(x)
		}
		return n
	case []interface{}:
		n := 0
		for _, x := range t {
			n += countLeaves(x)
		}
		return n
	}
	return 1
}

func runC13(c *harness.Ctx, p *spec.Path, doc string, useNum bool) {
	runC13Text(c, p, p.Text(), doc, useNum)
}

// runC13Text: text is the spelling handed to the library, p its AST (for SPEC's locations).
func runC13Text(c *harness.Ctx, p *spec.Path, text, doc string, useNum bool) {
	cfg := std.Config(true)
	t0 := time.Now()
	first := lib.Retrieve(text, lib.Decode(doc, useNum), cfg)
	costly := time.Since(t0) > 30*time.Millisecond // every index costs a retrieval plus a SPEC evaluation: bound the case
	key := text + "\x00" + doc
	if first.Panic != nil {
		c.Violation("panic "+key, fmt.Sprintf("Retrieve panicked: %v", first.Panic), map[string]interface{}{"path": text, "document": doc, "stack": first.Stack})
		return
	}
	if first.Err != nil {
		c.Tally("failing-retrieval")
		return
	}
	ev := &spec.Evaluator{F: std.Spec()}
	n := len(first.Res)
	if n > 12 {
		n = 12
	}
	if costly && n > 2 {
		n = 2
	}
	for i := 0; i < n; i++ {
		src := lib.Decode(doc, useNum)
		o := lib.Retrieve(text, src, cfg)
		want := lib.Decode(doc, useNum)
		wres, _ := ev.Eval(p, want, want)
		det := map[string]interface{}{"path": text, "document": doc, "index": i, "use_number": useNum}
		if o.Err != nil || len(o.Res) != len(first.Res) || len(wres) != len(o.Res) {
			c.Tally("result-count-differs-from-spec") // C01 / C12 territory
			return
		}
		a, ok := o.Res[i].(jsonpath.Accessor)
		if !ok {
			c.Violation("not-accessor "+key, "accessor mode returned something that is not an Accessor", det)
			return
		}
		// accessors are HELD while other retrievals run (every second index): the same path on another copy of the document and a
		// few fixed multi-valued paths on a matrix recycle whatever the library pools; the held accessor must still address its own
		// location, and the other documents must stay as they are when it is used
		var other, otherMatrix interface{}
		if (i+c.K)%2 == 1 {
			other = lib.Decode(doc, useNum)
			lib.Retrieve(text, other, cfg)
			otherMatrix = lib.Decode(`[[1,2,3],[4,5,6],{"a":[7,8],"b":{"c":9}}]`, useNum)
			for _, t := range []string{"$[0:2]", "$[*][0,1]", "$..*", "$[2].*", "$[::-1]"} {
				lib.Retrieve(t, otherMatrix, cfg)
			}
			c.Cover("accessor:held-across-other-retrievals")
			defer func(i int) {
				if !lib.Same(other, lib.Decode(doc, useNum)) || !lib.Same(otherMatrix, lib.Decode(`[[1,2,3],[4,5,6],{"a":[7,8],"b":{"c":9}}]`, useNum)) {
					c.Violation(fmt.Sprintf("set-other-document %s [%d]", key, i), "using an accessor changed ANOTHER document (one retrieved after the accessor was handed out)",
						map[string]interface{}{"path": text, "document": doc, "index": i, "other_copy_after": lib.JS(other), "matrix_after": lib.JS(otherMatrix)})
				}
			}(i)
		}
		loc := wres[i].Loc
		ikey := fmt.Sprintf("%s [%d]", key, i)
		if loc.Kind == spec.LNone {
			c.Cover("loc:none")
			if a.Set != nil {
				c.Violation("set-not-nil "+ikey, "Set is not nil for a result that is not a location of the document (root or function output)", det)
			}
			continue
		}
		if a.Set == nil {
			c.Violation("set-nil "+ikey, "Set is nil for a result that is a member/element of the document", det)
			continue
		}
		const sentinel, sentinel2 = "<<SENTINEL-1>>", "<<SENTINEL-2>>"
		var pan interface{}
		func() {
			defer func() { pan = recover() }()
			a.Set(sentinel)
		}()
		if pan != nil {
			det["panic"] = fmt.Sprint(pan)
			c.Violation("set-panic "+ikey, "Set panicked", det)
			continue
		}
		if loc.Kind == spec.LMap {
			c.Cover("loc:map")
			loc.Map[loc.Key] = sentinel
		} else {
			c.Cover("loc:list")
			loc.List[loc.Idx] = sentinel
		}
		if countLeaves(want) >= 3 {
			c.NonTrivial(ikey)
			if c.WantSample() && c.K%37 == 0 {
				c.Sample(map[string]interface{}{"path": text, "document": short(doc, 160), "index": i, "document_after_set": short(lib.JS(src), 200)})
			}
		}
		if !lib.Same(src, want) {
			det["after_set"] = lib.JS(src)
			det["expected"] = lib.JS(want)
			c.Violation("set-location "+ikey, "Set did not replace exactly the selected location (document differs from the original with that one location replaced)", det)
			continue
		}
		c.Cover("set:exact")
		if got := a.Get(); got != sentinel {
			det["get"] = lib.JS(got)
			c.Violation("get-after-set "+ikey, "Get() after Set(v) does not return v", det)
			continue
		}
		// live: the harness writes into the library-side document at the location SPEC predicts there
		res2, _ := ev.Eval(p, src, src) // src now holds the sentinel; filters may select differently, so locate by identity instead
		_ = res2
		liveLoc, found := locate(src, sentinel)
		if found {
			if liveLoc.Kind == spec.LMap {
				liveLoc.Map[liveLoc.Key] = sentinel2
			} else {
				liveLoc.List[liveLoc.Idx] = sentinel2
			}
			if got := a.Get(); got != sentinel2 {
				det["get"] = lib.JS(got)
				c.Violation("get-not-live "+ikey, "Get() does not reflect a later in-place update of the selected map entry / array element", det)
				continue
			}
			c.Cover("get:live")
		}
		// further Sets through the SAME accessor with values of every JSON kind, containers over containers of the same kind included
		// (object over object, array over array, empty ones, null): each replaces exactly that location and is what Get() returns
		values := []interface{}{
			map[string]interface{}{"set": 1.0}, map[string]interface{}{"set": []interface{}{2.0}}, map[string]interface{}{},
			[]interface{}{9.0}, []interface{}{map[string]interface{}{"x": nil}}, []interface{}{}, nil, true, 7.5, "",
		}
		if costly || len(doc) > 3000 {
			// every value costs a whole-document comparison: on big documents one same-kind pair only
			values = values[3*((i+c.K)%2):][:2]
		}
		for j, v := range values {
			var pan interface{}
			func() {
				defer func() { pan = recover() }()
				a.Set(v)
			}()
			if pan != nil {
				det["panic"] = fmt.Sprint(pan)
				det["set_value"] = lib.JS(v)
				det["value_number"] = j
				c.Violation("set-panic "+ikey, "Set panicked", det)
				break
			}
			if loc.Kind == spec.LMap {
				loc.Map[loc.Key] = v
			} else {
				loc.List[loc.Idx] = v
			}
			if !lib.Same(src, want) {
				det["after_set"] = lib.JS(src)
				det["expected"] = lib.JS(want)
				det["set_value"] = lib.JS(v)
				c.Violation("set-location "+ikey, "Set did not replace exactly the selected location (document differs from the original with that one location replaced)", det)
				break
			}
			if got := a.Get(); !lib.Same(got, v) {
				det["get"] = lib.JS(got)
				det["set_value"] = lib.JS(v)
				c.Violation("get-after-set "+ikey, "Get() after Set(v) does not return v", det)
				break
			}
			c.Cover("set:value-of-every-kind")
		}
	}
}

// locate finds the unique location holding the sentinel string.
func locate(v interface{}, sentinel string) (spec.Loc, bool) {
	switch t := v.(type) {
	case map[string]interface{}:
		for k, x := range t {
			if s, ok := x.(string); ok && s == sentinel {
				return spec.Loc{Kind: spec.LMap, Map: t, Key: k}, true
			}
			if l, ok := locate(x, sentinel); ok {
				return l, true
			}
		}
	case []interface{}:
		for i, x := range t {
			if s, ok := x.(string); ok && s == sentinel {
				return spec.Loc{Kind: spec.LList, List: t, Idx: i}, true
			}
			if l, ok := locate(x, sentinel); ok {
				return l, true
			}
		}
	}
	return spec.Loc{}, false
}
