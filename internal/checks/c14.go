package checks

import (
	"fmt"
	"reflect"
	"sort"
	"strings"

	"github.com/AsaiYusuke/jsonpath"
	"verif/internal/gen"
	"verif/internal/harness"
	"verif/internal/lib"
	"verif/internal/spec"
)

// uniqueFuncNames renames every function occurrence of the path (top level and
// inside filters) to its own alias name_<n>, so that the call logs of different
// positions never interleave. It returns the alias -> original map.
func uniqueFuncNames(p *spec.Path) map[string]string {
	alias := map[string]string{}
	n := 0
	p.Walk(func(sub *spec.Path) {
		for i, f := range sub.Funcs {
			if _, done := alias[f]; done {
				continue // already an alias (shared sub-path visited twice)
			}
			n++
			a := fmt.Sprintf("%s_%d", f, n)
			alias[a] = f
			sub.Funcs[i] = a
		}
	})
	return alias
}

func clonePath(p *spec.Path) *spec.Path {
	cp := &spec.Path{Root: p.Root, Funcs: append([]string{}, p.Funcs...)}
	for _, s := range p.Steps {
		ns := s
		if s.Q != nil {
			ns.Q = cloneQuery(s.Q)
		}
		cp.Steps = append(cp.Steps, ns)
	}
	return cp
}

func cloneQuery(q *spec.Query) *spec.Query {
	nq := *q
	if q.L != nil {
		nq.L = cloneQuery(q.L)
	}
	if q.R != nil {
		nq.R = cloneQuery(q.R)
	}
	if q.P != nil {
		nq.P = clonePath(q.P)
	}
	if q.LO.P != nil {
		nq.LO.P = clonePath(q.LO.P)
	}
	if q.RO.P != nil {
		nq.RO.P = clonePath(q.RO.P)
	}
	return &nq
}

var c14Suffixes = func() [][]string {
	var out [][]string
	fs := []string{"twice", "pick"}
	gs := []string{"count", "sum"}
	var rec func(prefix []string, n int)
	rec = func(prefix []string, n int) {
		if n > 0 {
			out = append(out, append([]string{}, prefix...))
		}
		if n == 3 {
			return
		}
		// one filter function and one aggregate per position, alternating the concrete function
		rec(append(prefix, fs[n%2]), n+1)
		rec(append(prefix, gs[n%2]), n+1)
	}
	rec(nil, 0)
	return out
}()

// docSlices collects the addresses of the backing arrays of every slice of the document.
func docSlices(v interface{}, out map[uintptr]bool) {
	switch t := v.(type) {
	case map[string]interface{}:
		for _, x := range t {
			docSlices(x, out)
		}
	case []interface{}:
		if cap(t) > 0 {
			out[reflect.ValueOf(t).Pointer()] = true
		}
		for _, x := range t {
			docSlices(x, out)
		}
	}
}

// scribbling wraps the aggregates of fs: after computing (on a private copy) it overwrites the
// argument slice it was given, unless that slice is an array of the document itself.
func scribbling(fs lib.FuncSet, doc map[uintptr]bool, produced map[uintptr]bool) lib.FuncSet {
	out := lib.FuncSet{Filter: map[string]func(interface{}) (interface{}, error){}, Aggr: map[string]func([]interface{}) (interface{}, error){}}
	for n, f := range fs.Filter {
		n, f := n, f
		out.Filter[n] = func(v interface{}) (interface{}, error) {
			res, err := f(v)
			if l, ok := res.([]interface{}); ok && cap(l) > 0 {
				produced[reflect.ValueOf(l).Pointer()] = true
			}
			return res, err
		}
	}
	for n, f := range fs.Aggr {
		f := f
		out.Aggr[n] = func(v []interface{}) (interface{}, error) {
			res, err := f(v) // the standard functions only read their argument (keep returns it as it is)
			if l, ok := res.([]interface{}); ok && cap(l) > 0 {
				produced[reflect.ValueOf(l).Pointer()] = true // includes the argument itself when it is returned: not scribbled then
			}
			if cap(v) > 0 {
				p := reflect.ValueOf(v).Pointer()
				if !doc[p] && !produced[p] {
					for i := range v {
						v[i] = "<<SCRIBBLED-BY-USER-FUNCTION>>"
					}
				}
			}
			return res, err
		}
	}
	return out
}

// C14 — functions see every selected value once, in order; aggregates see all of them.
func init() {
	harness.Register(&harness.Check{
		ID:    "C14",
		Level: "exploration",
		Rule: "case = one (path, document): every sequence of <=2 step kinds followed by each of the 14 function suffixes of length 1..3 (filter function / aggregate in every order) x " +
			"battery documents, every systematic comparison with function operands x filter documents, then random ASTs biased to functions (trailing and inside filter operands) on " +
			"path-directed documents; every function OCCURRENCE is registered under its own name, recording wrappers log each call (argument types + JSON, result or error); judged " +
			"against SPEC's call protocol: per occurrence the same ordered call log (calls inside the right operand of a && / || whose left operand already decided may be skipped), " +
			"values equal, and when SPEC's deepest failures are all function failures the error is ErrorFunctionFailed naming one of them; aggregates additionally scribble over the " +
			"argument slice they were given (unless it is an array of the document) and nothing may change; in half of the cases some occurrences' ids are registered in both function tables (the filter table wins); non-trivial = at least one call was logged; distinct = distinct (path, document)",
		Assumptions: []string{"SPEC's protocol: filter function once per preceding value in result order; aggregate exactly once with all values, or with the elements of the array when the path before it is single-valued and selects an array; not called when nothing precedes",
			"standard deterministic functions; twice/nostr/first/sum fail on some values"},
		Plan: func(tier string, seed int64) *harness.Plan {
			base := gen.SysPaths(2, -1, fnF, fnG) // no suffixes from the enumerator: we add our own
			var sys []*spec.Path
			for _, b := range base {
				for _, suf := range c14Suffixes {
					sys = append(sys, &spec.Path{Root: '$', Steps: b.Steps, Funcs: suf})
				}
			}
			var filt []*spec.Path
			for _, q := range gen.SysComparisons("twice", "count", true) {
				fn := func(o spec.Operand) bool { return !o.IsLit && len(o.P.Funcs) > 0 }
				if q.Op == spec.QRegex && len(q.P.Funcs) > 0 || q.Op == spec.QCmp && (fn(q.LO) || fn(q.RO)) {
					filt = append(filt, filterPath(q))
				}
			}
			nA := len(sys) * len(gen.Battery)
			nB := len(filt) * len(gen.FilterDocs)
			return &harness.Plan{
				N:     nA + nB + size(tier, 100000, 10000000),
				Setup: func(c *harness.Ctx) { hooksOn() },
				Run: func(c *harness.Ctx, k int) {
					hooksAlternate(k) // key / container poison also hides a library that wrongly re-uses a recycled buffer's content: every second case runs without

					var p *spec.Path
					var doc string
					switch {
					case k < nA:
						p, doc = sys[k/len(gen.Battery)], gen.Battery[k%len(gen.Battery)]
					case k < nA+nB:
						k -= nA
						p, doc = filt[k/len(gen.FilterDocs)], gen.FilterDocs[k%len(gen.FilterDocs)]
					default:
						r := c.Rand()
						g := funcBiased(gen.New(r))
						p = g.Path(4, 2)
						doc = lib.JS(g.DocFor(p))
					}
					runC14(c, clonePath(p), doc, k%2 == 1)
				},
				Finish:   reportHooks,
				Required: []string{"fn:after-multi", "fn:after-wild", "fn:after-filter", "fn:after-rec", "fn:in-filter", "protocol:aggregate-single-array", "protocol:aggregate-list", "protocol:filter-per-value", "protocol:function-failed", "protocol:optional-skipped-or-not", "config:id-in-both-tables"},
			}
		},
	})
}

func runC14(c *harness.Ctx, p *spec.Path, doc string, useNum bool) {
	coverFuncPositions(c, p)
	alias := uniqueFuncNames(p)
	fs := std.Alias(alias)
	if c.K%4 >= 2 {
		// configurations: an id registered in BOTH tables; functions are looked up filter functions first, so the
		// occurrence is a filter function whatever the aggregate table says
		names := make([]string, 0, len(alias))
		for a := range alias {
			names = append(names, a)
		}
		sort.Strings(names)
		r := c.Rand("dual")
		top := map[string]bool{}
		for _, a := range p.Funcs {
			top[a] = true
		}
		for _, a := range names {
			if r.Intn(2) == 0 {
				continue
			}
			if _, isFilter := std.Filter[alias[a]]; isFilter {
				fs.Aggr[a] = std.Aggr[[]string{"count", "first", "echo"}[r.Intn(3)]]
			} else if !top[a] {
				continue // inside a comparison an aggregate is what makes the operand single-valued: turning it into a filter function would make the path invalid
			} else {
				twin := []string{"ident", "wrap", "nostr"}[r.Intn(3)]
				fs.Filter[a] = std.Filter[twin]
				alias[a] = twin
			}
			c.Cover("config:id-in-both-tables")
		}
	}
	text, texts := p.Render(spec.Canon)
	key := text + "\x00" + doc

	src := lib.Decode(doc, useNum)
	if c.K%8 == 5 {
		src, _ = lib.HashCons(src) // equal sub-containers are one map / slice; SPEC runs on an unshared copy
		c.Cover("doc:shared-sub-containers")
	}
	ds, produced := map[uintptr]bool{}, map[uintptr]bool{}
	docSlices(src, ds)
	recL := lib.NewRecorder()
	// every fifth case in accessor mode: functions see the same plain values, results are unwrapped with Get()
	acc := c.K%5 == 3
	o := lib.Retrieve(text, src, scribbling(fs, ds, produced).Recording(recL).Config(acc))
	if acc {
		c.Cover("config:accessor-mode")
		if o.Err == nil && o.Panic == nil {
			for i, x := range o.Res {
				if a, ok := x.(jsonpath.Accessor); ok {
					o.Res[i] = a.Get()
				}
			}
		}
	}

	src2 := lib.Decode(doc, useNum)
	recS := lib.NewRecorder()
	ev := &spec.Evaluator{}
	recS.Optional = func() bool { return ev.OptDepth > 0 }
	ev.F = fs.Recording(recS).Spec()
	res, fails := ev.Eval(p, src2, src2)

	det := map[string]interface{}{"path": text, "document": doc, "use_number": useNum, "library": o.String(), "spec": lib.JS(specValues(res))}
	if o.Panic != nil {
		det["stack"] = o.Stack
		c.Violation("panic "+key, fmt.Sprintf("Retrieve panicked: %v", o.Panic), det)
		return
	}
	if len(recS.Logs) > 0 || len(recL.Logs) > 0 {
		c.NonTrivial(key)
		if c.WantSample() && c.K%41 == 0 {
			c.Sample(map[string]interface{}{"path": text, "document": short(doc, 160), "call_logs": recL.Logs})
		}
	}
	// per-occurrence call logs
	for a := range alias {
		l, full := recL.Logs[a], recS.Logs[a]
		if recS.Explains(a, l) {
			if recS.HasOptional(a) {
				c.Cover("protocol:optional-skipped-or-not")
			}
		} else {
			det["function"] = a
			det["library_calls"] = l
			det["spec_calls"] = full
			c.Violation("call-log "+key, "a function was not called exactly once per selected value in order (aggregate: exactly once with all values / the single array's elements)", det)
			return
		}
		for _, e := range full {
			switch {
			case strings.HasPrefix(e, "["):
				if _, isAggr := std.Aggr[alias[a]]; isAggr {
					c.Cover("protocol:aggregate-list")
				}
			}
		}
		if _, isAggr := std.Aggr[alias[a]]; !isAggr && len(full) > 1 {
			c.Cover("protocol:filter-per-value")
		}
	}
	if !p.IsValueGroup() && len(p.Funcs) > 0 {
		if _, isAggr := std.Aggr[alias[p.Funcs[0]]]; isAggr && len(recS.Logs[p.Funcs[0]]) > 0 {
			c.Cover("protocol:aggregate-single-array")
		}
	}
	// values / errors
	switch {
	case o.Err == nil && len(res) == 0, o.Err != nil && len(res) > 0:
		c.Violation("outcome "+key, "success/failure differs from the call-protocol definition", det)
	case o.Err == nil:
		if !lib.SameList(o.Res, specValues(res)) {
			c.Violation("values "+key, "function results were not chained left to right over the selected values (or an argument slice scribbled by the user function leaked into the result)", det)
		}
	default:
		cands := specCandidates(fails, texts)
		det["spec_candidates"] = cands
		allFunc := len(cands) > 0
		for _, f := range spec.Select(fails) {
			allFunc = allFunc && f.Kind == spec.FFunc
		}
		if allFunc {
			c.Cover("protocol:function-failed")
			if _, ok := o.Err.(jsonpath.ErrorFunctionFailed); !ok || !contains(cands, lib.ErrString(o.Err)) {
				c.Violation("function-failed "+key, "no branch produced a result because functions failed, but the error is not ErrorFunctionFailed naming a function that failed", det)
			}
		}
	}
}
