package checks

import (
	"fmt"

	"verif/internal/gen"
	"verif/internal/harness"
	"verif/internal/lib"
	"verif/internal/spec"
)

// C15 — runtime errors name a real failing step: the library's error must be
// one of SPEC's failure-event candidates (deepest failing depth, missing
// member / failed function preferred over type mismatch); exact for
// single-valued paths.
func init() {
	harness.Register(&harness.Check{
		ID:    "C15",
		Level: "exploration",
		Rule: "cases = the C01 case list (systematic step-kind sequences x battery, comparison/logical shapes x filter documents, random ASTs on random / " +
			"path-directed documents with a miss-biased perturbation) plus the accepted strings of the hostile generators with their AST recovered from the grammar's parse tree; only failing pairs are judged; non-trivial = the failing step is not the first one or " +
			"several branches fail; distinct = distinct (path text, document, decode mode)",
		Assumptions: []string{
			"SPEC's failure events define 'a failure that really occurs at that step'; for multi-branch paths any candidate at the deepest failing depth is accepted (non-type preferred), as the property states",
			"error text format `member did not exist (path=…)`, `type unmatched (expected=…, found=…, path=…)`, `function failed (function=…, error=…)` as documented in the README",
		},
		Plan: func(tier string, seed int64) *harness.Plan {
			sys := newSysCases(tier)
			nRand := size(tier, 200000, 12000000)
			nStr := size(tier, 100000, 5000000)
			var src *strSource
			return &harness.Plan{
				N: sys.n() + nRand + nStr,
				Setup: func(c *harness.Ctx) {
					hooksOn()
					src = newStrSource()
				},
				Run: func(c *harness.Ctx, k int) {
					hooksAlternate(k) // key / container poison also hides a library that wrongly re-uses a recycled buffer's content: every second case runs without

					var d *diffCase
					if k < sys.n() {
						d = sys.get(k)
					} else if k >= sys.n()+nRand {
						if src.err != nil {
							return
						}
						r := c.Rand()
						var ok bool
						if d, ok = stringCase(c, r, gen.New(r), src); !ok {
							return
						}
					} else {
						r := c.Rand()
						g := gen.New(r)
						d = randomCase(r, g, r.Intn(4) == 0)
						if r.Intn(2) == 0 {
							// miss-biased: perturb the directed document once more
							doc := g.DocFor(d.P)
							d.Doc = lib.JS(doc)
						}
					}
					runC15(c, d)
				},
				Finish:   reportHooks,
				Required: []string{"err:jsonpath.ErrorMemberNotExist", "err:jsonpath.ErrorTypeUnmatched", "err:jsonpath.ErrorFunctionFailed", "shape:single-valued", "shape:multi-branch"},
			}
		},
	})
}

func singleValued(p *spec.Path) bool {
	if p.IsValueGroup() {
		return false
	}
	for _, f := range p.Funcs {
		if _, ok := std.Aggr[f]; ok {
			continue
		}
	}
	return true
}

func runC15(c *harness.Ctx, d *diffCase) {
	o := d.observe(std)
	if o.Lib.Panic != nil {
		c.Violation("panic "+d.key(), fmt.Sprintf("Retrieve panicked: %v", o.Lib.Panic), d.detail(map[string]interface{}{"stack": o.Lib.Stack}))
		return
	}
	if o.Lib.Err == nil || len(o.Spec) > 0 {
		c.Tally("not-failing")
		return // success/failure agreement is C01's business
	}
	got := lib.ErrString(o.Lib.Err)
	c.Cover("err:" + fmt.Sprintf("%T", o.Lib.Err))
	single := singleValued(d.P)
	if single {
		c.Cover("shape:single-valued")
		if len(o.Cands) != 1 {
			c.Inconclusive(fmt.Sprintf("SPEC produced %d candidates for the single-valued path %s", len(o.Cands), d.Text))
		}
	} else {
		c.Cover("shape:multi-branch")
	}
	deep := false
	for _, f := range spec.Select(o.Fails) {
		deep = deep || f.Depth > 0
	}
	if deep || len(o.Fails) > 1 {
		c.NonTrivial(d.key())
		if c.WantSample() {
			c.Sample(map[string]interface{}{"path": d.Text, "document": short(d.Doc, 200), "error": got, "candidates": o.Cands})
		}
	}
	if !lib.IsRuntimeErr(o.Lib.Err) {
		c.Violation("type "+d.key(), "retrieval failed with an error that is not one of the three runtime error types", d.detail(map[string]interface{}{"library": got}))
		return
	}
	if !contains(o.Cands, got) {
		msg := "the reported error is not a failure that occurs at the deepest failing step"
		if single {
			msg = "single-valued path: the reported error is not the first failing step (type, path text, expected or found differ)"
		}
		c.Violation("error "+d.key(), msg, d.detail(map[string]interface{}{"library": got, "spec_candidates": o.Cands}))
	}
}
