package checks

import (
	"fmt"
	"strings"
	"unicode/utf8"

	"verif/internal/gen"
	"verif/internal/harness"
	"verif/internal/lib"
	"verif/internal/spec"
)

// C16 — every object member is addressable; dot and bracket notations are equivalent.
func init() {
	harness.Register(&harness.Check{
		ID:    "C16",
		Level: "exploration",
		Rule: "case = one key (0..12 characters from all Unicode planes, ASCII symbols, controls, DEL, C1, U+FFFD/U+FFFF, astral, escape-looking sequences such as \\n, \\u0041, lone " +
			"surrogates as \\uXXXX text) stored as member k -> \"HIT\" of an object together with near-miss sibling keys (k+x, \\k, k\\, quoted k, k without/with doubled backslashes, " +
			"k minus first/last character, k with one inner character deleted / doubled, case variants); queried as $['k'], $[\"k\"], the same with every character written as a \\uXXXX escape (upper-case / lower-case / mixed hex, surrogate pairs), for keys containing U+FFFD also with every U+FFFD written as an UNPAIRED surrogate escape (root, after `..`, nested), $.k with every symbol backslash-escaped (non-empty keys without control characters), k with the root " +
			"omitted, $..k, $..['k'], $[?(@['k']=='HIT')], $['k','k'], nested $.o['k'], $..['k','k'] and $..['k'] on a document with arrays on the way; judged: exactly [\"HIT\"] (direct map lookup is the model) for every spelling; " +
			"non-trivial = the key contains a non-alphanumeric character; distinct = distinct keys",
		Assumptions: []string{"keys are valid UTF-8 (JSON object keys)", "bracket spelling uses JSON-style escaping: the quote, backslash, \\b\\f\\n\\r\\t and \\u00XX for other control characters"},
		Plan: func(tier string, seed int64) *harness.Plan {
			return &harness.Plan{
				N:        size(tier, 200000, 4000000),
				Setup:    func(c *harness.Ctx) { hooksOn() },
				Run:      runC16,
				Finish:   reportHooks,
				Required: []string{"key:empty", "key:control", "key:astral", "key:backslash", "key:quote", "spelling:dot", "spelling:single", "spelling:double", "spelling:recursive-dot", "spelling:filter", "spelling:rootless", "spelling:hex-upper", "spelling:hex-lower", "spelling:hex-mixed", "spelling:lone-surrogate", "spelling:recursive-multi-through-arrays"},
			}
		},
	})
}

func runC16(c *harness.Ctx, k int) {
	r := c.Rand()
	key := gen.Key(r)
	if !utf8.ValidString(key) {
		return
	}
	simple := true
	for _, x := range key {
		switch {
		case x < 0x20 || x == 0x7f:
			c.Cover("key:control")
			simple = false
		case x >= 0x10000:
			c.Cover("key:astral")
			simple = false
		case x == '\\':
			c.Cover("key:backslash")
			simple = false
		case x == '\'' || x == '"':
			c.Cover("key:quote")
			simple = false
		case !(x >= '0' && x <= '9' || x >= 'a' && x <= 'z' || x >= 'A' && x <= 'Z'):
			simple = false
		}
	}
	if key == "" {
		c.Cover("key:empty")
	}
	if !simple {
		c.NonTrivial(key)
	}
	// the object: k -> HIT among near misses
	obj := map[string]interface{}{key: "HIT"}
	for i, s := range gen.NearMisses(key) {
		if _, dup := obj[s]; !dup {
			obj[s] = fmt.Sprintf("miss%d", i)
		}
	}
	doc := map[string]interface{}{}
	for kk, v := range obj {
		doc[kk] = v
	}
	inner := map[string]interface{}{}
	for kk, v := range obj {
		inner[kk] = v
	}
	nested := map[string]interface{}{"o": inner}

	type q struct {
		name, text string
		doc        interface{}
		want       []interface{}
	}
	hit := []interface{}{"HIT"}
	nameStep := func(bracket bool) spec.Step { return spec.Step{Kind: spec.KName, Key: key, Bracket: bracket} }
	render := func(p *spec.Path, dq bool) string {
		s, _ := p.Render(spec.Spelling{DQ: func() bool { return dq }})
		return s
	}
	qs := []q{
		{"single", render(&spec.Path{Root: '$', Steps: []spec.Step{nameStep(true)}}, false), doc, hit},
		{"double", render(&spec.Path{Root: '$', Steps: []spec.Step{nameStep(true)}}, true), doc, hit},
		{"recursive-bracket", render(&spec.Path{Root: '$', Steps: []spec.Step{{Kind: spec.KRec}, nameStep(true)}}, r.Intn(2) == 0), doc, hit},
		{"multi", render(&spec.Path{Root: '$', Steps: []spec.Step{{Kind: spec.KMulti, Items: []spec.MItem{{Key: key}, {Key: key}}}}}, r.Intn(2) == 0), doc, []interface{}{"HIT", "HIT"}},
		{"nested", render(&spec.Path{Root: '$', Steps: []spec.Step{{Kind: spec.KName, Key: "o"}, nameStep(true)}}, r.Intn(2) == 0), nested, hit},
		{"rootless-bracket", render(&spec.Path{Root: 0, Steps: []spec.Step{nameStep(true)}}, r.Intn(2) == 0), doc, hit},
	}
	// the same key with its characters written as \uXXXX escapes (upper-case, lower-case, mixed; surrogate pairs for astral characters)
	for mode, nm := range []string{"hex-upper", "hex-lower", "hex-mixed"} {
		qs = append(qs, q{nm, "$[" + spec.QuoteKeyHex(key, (k+mode)%2 == 0, mode) + "]", doc, hit})
	}
	qs = append(qs, q{"hex-recursive", "$..[" + spec.QuoteKeyHex(key, k%2 == 0, k%3) + "]", doc, hit})
	// filter spelling: members of an array, one of which has k -> HIT
	// the label member must not collide with the key under test or one of its near misses (a generated key can be "id")
	label := "id"
	for taken := true; taken; {
		taken = label == key
		for _, s := range gen.NearMisses(key) {
			taken = taken || s == label
		}
		if taken {
			label += "_"
		}
	}
	// keys containing U+FFFD: every U+FFFD written as an unpaired surrogate escape (JSON-style decoding yields U+FFFD)
	if strings.ContainsRune(key, 0xFFFD) {
		pick := func(n int) int { return r.Intn(n) }
		qs = append(qs,
			q{"lone-surrogate", "$[" + spec.QuoteKeyLoneSurrogates(key, k%2 == 0, pick) + "]", doc, hit},
			q{"lone-surrogate-recursive", "$..[" + spec.QuoteKeyLoneSurrogates(key, k%2 == 1, pick) + "]", doc, hit},
			q{"lone-surrogate-nested", "$.o[" + spec.QuoteKeyLoneSurrogates(key, k%3 == 0, pick) + "]", nested, hit},
		)
	}
	fdoc := []interface{}{map[string]interface{}{key: "HIT", label: "yes"}}
	for i, s := range gen.NearMisses(key) {
		if s != key {
			fdoc = append(fdoc, map[string]interface{}{s: "HIT", label: fmt.Sprintf("no%d", i)})
		}
	}
	// the same selectors met by ARRAYS on the way: a name never selects from an array, whatever the name looks like (`*`, `0`, `-1`,
	// `length` ...); the descent passes through an array and finds the key again in an object inside it
	mixed := map[string]interface{}{key: "HIT", label: []interface{}{"x", "y", map[string]interface{}{key: "HIT2"}}}
	qs = append(qs,
		q{"recursive-multi-through-arrays", render(&spec.Path{Root: '$', Steps: []spec.Step{{Kind: spec.KRec}, {Kind: spec.KMulti, Items: []spec.MItem{{Key: key}, {Key: key}}}}}, r.Intn(2) == 0), mixed, []interface{}{"HIT", "HIT", "HIT2", "HIT2"}},
		q{"recursive-bracket-through-arrays", render(&spec.Path{Root: '$', Steps: []spec.Step{{Kind: spec.KRec}, nameStep(true)}}, r.Intn(2) == 0), mixed, []interface{}{"HIT", "HIT2"}},
	)
	fq := &spec.Query{Op: spec.QCmp, Cmp: "==", LO: spec.Operand{P: &spec.Path{Root: '@', Steps: []spec.Step{nameStep(true)}}}, RO: gen.StrLit("HIT", false)}
	qs = append(qs, q{"filter", render(&spec.Path{Root: '$', Steps: []spec.Step{{Kind: spec.KFilter, Q: fq}, {Kind: spec.KName, Key: label}}}, r.Intn(2) == 0), fdoc, []interface{}{"yes"}})
	if spec.DotOK(key) {
		qs = append(qs,
			q{"dot", "$." + spec.DotName(key), doc, hit},
			q{"recursive-dot", "$.." + spec.DotName(key), doc, hit},
			q{"rootless", spec.DotName(key), doc, hit},
			q{"nested-dot", "$.o." + spec.DotName(key), nested, hit},
		)
	}
	if k%2 == 1 {
		// the quoted tokens of the bracket spellings first appear in ANOTHER position: as string literals of a filter (whose escaping
		// rules differ); whatever the library remembers about a token text there must not change what the name selectors below do
		for _, x := range qs[:2] {
			if strings.HasPrefix(x.text, "$[") && strings.HasSuffix(x.text, "]") {
				tok := x.text[2 : len(x.text)-1]
				lib.Retrieve("$[?(@=="+tok+")]", []interface{}{"x"})
				lib.Retrieve("$[?(@.a=~/"+tok[1:len(tok)-1]+"/)]", []interface{}{"x"})
				c.Cover("position:same-token-first-seen-as-filter-literal")
			}
		}
	}
	for _, x := range qs {
		c.Cover("spelling:" + x.name)
		o := lib.Retrieve(x.text, x.doc)
		ok := o.Panic == nil && o.Err == nil && lib.SameList(o.Res, x.want)
		if x.name == "recursive-dot" || x.name == "recursive-bracket" {
			// `..k` also descends: no nested object here, so still exactly one
		}
		if !ok {
			c.Violation(fmt.Sprintf("%s %q", x.name, key), fmt.Sprintf("the %s spelling of key %q does not return exactly that member", x.name, key),
				map[string]interface{}{"key": key, "key_quoted": fmt.Sprintf("%q", key), "path": x.text, "path_quoted": fmt.Sprintf("%q", x.text), "document": lib.JS(x.doc), "expected": lib.JS(x.want), "got": o.String()})
		}
	}
	if c.WantSample() && !simple && k%43 == 0 {
		c.Sample(map[string]interface{}{"key": fmt.Sprintf("%q", key), "spellings": func() []string {
			var t []string
			for _, x := range qs {
				t = append(t, fmt.Sprintf("%q", x.text))
			}
			return t
		}(), "siblings": len(obj) - 1})
	}
	_ = strings.Contains
}
