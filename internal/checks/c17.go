package checks

import (
	"fmt"
	"strconv"
	"strings"

	"github.com/AsaiYusuke/jsonpath"
	"verif/internal/gen"
	"verif/internal/harness"
	"verif/internal/lib"
	"verif/internal/pegi"
)

// C17 — the accepted language is the published grammar; syntax errors point at
// the spot. Translation validation by co-execution: the generated parser vs an
// independent interpreter (PEGI) executing /repo/jsonpath.peg itself, plus the
// restriction oracle.
func init() {
	harness.Register(&harness.Check{
		ID:    "C17",
		Level: "translation_validation",
		Rule: "programs = strings from the C02 generators (incl. grammar-derived strings that put every character-class end-point and its outside neighbour into " +
			"play), each parsed with and without registered functions; compared: accept/reject, the error class against the violated restriction, 0<=position<=len, " +
			"near == rest of the path from that character, and for `unrecognized input` position == end of the longest prefix rule `jsonpath` consumes; " +
			"non-trivial = PEGI matched a non-empty prefix; distinct = distinct strings",
		Assumptions: []string{
			"/repo/jsonpath.peg is the published grammar (a consistent edit of grammar and generated parser changes the specification and is invisible here)",
			"PEGI implements PEG semantics (ordered choice, greedy repetition, predicates, packrat) for the subset of pointlander/peg syntax the file uses",
			"documented restrictions: strconv.Atoi on index numbers, ParseFloat on number literals, regexp.Compile, registered functions, no script, no value-group operand, no two @ operands, JSON unescape of quoted names",
		},
		Plan: func(tier string, seed int64) *harness.Plan {
			var src *strSource
			var oracles [2]*pegi.Oracle
			nSys := len(gen.SysSentences(2, 1, fnF, fnG))
			return &harness.Plan{
				N: nSys + size(tier, 250000, 8000000),
				Setup: func(c *harness.Ctx) {
					hooksOn()
					src = newStrSource()
					if src.err != nil {
						c.Violation("grammar-unreadable", "the grammar file /repo/jsonpath.peg cannot be read by the PEG interpreter: "+src.err.Error(), nil)
						return
					}
					c.Hook("max_grammar_rules", uint64(len(src.sg.Grammar.Order)))
					f, a := map[string]bool{}, map[string]bool{}
					for n := range std.Filter {
						f[n] = true
					}
					for n := range std.Aggr {
						a[n] = true
					}
					oracles[0] = &pegi.Oracle{G: src.sg.Grammar, Filter: map[string]bool{}, Aggr: map[string]bool{}}
					oracles[1] = &pegi.Oracle{G: src.sg.Grammar, Filter: f, Aggr: a}
				},
				Run: func(c *harness.Ctx, k int) {
					if src.err != nil {
						return
					}
					var s, class string
					if k < nSys {
						s, class = src.sg.Sys[k], "sys"
					} else {
						r := c.Rand()
						s, class = src.sg.Next(r, gen.New(r))
					}
					c.Cover("class:" + class)
					for ci := 0; ci < 2; ci++ {
						var po lib.ParseOutcome
						if ci == 0 {
							po = lib.Parse(s)
						} else {
							po = lib.Parse(s, std.Config(false))
						}
						runC17(c, s, ci, po, oracles[ci])
					}
				},
				Finish: reportHooks,
				Required: []string{"agree:accept", "agree:unrecognized", "agree:" + pegi.SigArgument, "agree:" + pegi.SigNotFound, "agree:" + pegi.SigNotSupport,
					"agree:" + pegi.SigValueGroup, "agree:" + pegi.SigTwoCurrent, "nonascii-syntax-error", "class:grammar"},
			}
		},
	})
}

func parseInvalidSyntax(msg string) (pos int, reason, near string, ok bool) {
	// invalid syntax (position=%d, reason=%s, near=%s)
	rest := strings.TrimPrefix(msg, "invalid syntax (position=")
	if rest == msg || !strings.HasSuffix(rest, ")") {
		return
	}
	i1 := strings.Index(rest, ", reason=")
	if i1 < 0 {
		return
	}
	pos, err := strconv.Atoi(rest[:i1])
	if err != nil {
		return
	}
	rest = rest[i1+len(", reason="):]
	// reasons never contain ", near=": take the first occurrence
	i2 := strings.Index(rest, ", near=")
	if i2 < 0 {
		return
	}
	return pos, rest[:i2], rest[i2+len(", near=") : len(rest)-1], true
}

// runeSuffix returns the bytes of s from its pos-th character on (each invalid byte counts as one character).
func runeSuffix(s string, pos int) (string, bool) {
	n := 0
	for i := range s {
		if n == pos {
			return s[i:], true
		}
		n++
	}
	if n == pos {
		return "", true
	}
	return "", false
}

func runC17(c *harness.Ctx, s string, ci int, po lib.ParseOutcome, o *pegi.Oracle) {
	key := fmt.Sprintf("%q cfg=%d", s, ci)
	det := map[string]interface{}{"path": s, "path_quoted": fmt.Sprintf("%q", s), "functions_registered": ci == 1}
	if po.Panic != nil {
		det["stack"] = po.Stack
		c.Program(false)
		c.Violation("panic "+key, fmt.Sprintf("Parse panicked: %v", po.Panic), det)
		return
	}
	v := o.Check(s)
	c.Program(true)
	if v.Matched && v.PrefixEnd > 0 {
		c.NonTrivial(s)
	}
	var viol []string
	for sig := range v.Viol {
		viol = append(viol, sig)
	}
	det["grammar_derivable"] = v.Derivable
	det["grammar_prefix_end"] = v.PrefixEnd
	det["restrictions_violated"] = viol
	if po.Err == nil {
		switch {
		case !v.Derivable:
			c.Violation("accepted-underivable "+key, "Parse accepted a string that is not derivable from the published grammar", det)
		case len(v.Viol) > 0:
			c.Violation("accepted-restricted "+key, "Parse accepted a string that violates a documented semantic restriction", det)
		default:
			c.Cover("agree:accept")
			if c.WantSample() && c.K%11 == 0 {
				c.Sample(map[string]interface{}{"string": fmt.Sprintf("%q", s), "both": "accept"})
			}
		}
		return
	}
	det["error"] = lib.ErrString(po.Err)
	if v.Derivable && len(v.Viol) == 0 {
		c.Violation("rejected-valid "+key, "Parse rejected a string that is derivable from the grammar and violates no documented restriction", det)
		return
	}
	sig := fmt.Sprintf("%T", po.Err)
	if e, ok := po.Err.(jsonpath.ErrorInvalidSyntax); ok {
		pos, reason, near, ok := parseInvalidSyntax(e.Error())
		if !ok {
			c.Violation("syntax-message "+key, "ErrorInvalidSyntax message does not have the documented shape", det)
			return
		}
		want, inside := runeSuffix(s, pos)
		if !inside || pos < 0 {
			c.Violation("position-outside "+key, "ErrorInvalidSyntax reports a character offset outside the path", det)
			return
		}
		if near != want {
			det["near_expected"] = want
			c.Violation("near "+key, "`near` is not the rest of the path from the reported character on", det)
			return
		}
		for _, r := range s {
			if r >= 0x80 {
				c.Cover("nonascii-syntax-error")
				break
			}
		}
		if reason == "unrecognized input" {
			switch {
			case v.Derivable:
				c.Violation("unrecognized-derivable "+key, "`unrecognized input` reported for a string the grammar derives completely", det)
			case pos != v.PrefixEnd:
				c.Violation("position "+key, fmt.Sprintf("`unrecognized input` at %d but the longest prefix the grammar's jsonpath rule consumes ends at %d", pos, v.PrefixEnd), det)
			default:
				c.Cover("agree:unrecognized")
				if c.WantSample() && c.K%5 == 0 {
					c.Sample(map[string]interface{}{"string": fmt.Sprintf("%q", s), "both": fmt.Sprintf("reject at %d", pos)})
				}
			}
			return
		}
		sig += "|" + reason
	}
	if !v.Viol[sig] {
		c.Violation("unexplained "+key, "the rejection is not explained by underivability or by a documented restriction the string violates", det)
		return
	}
	c.Cover("agree:" + sig)
}
