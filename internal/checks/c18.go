package checks

import (
	"fmt"

	"verif/internal/gen"
	"verif/internal/harness"
	"verif/internal/lib"
)

// C18 — equivalent spellings of a path behave identically.
func init() {
	harness.Register(&harness.Check{
		ID:    "C18",
		Level: "exploration",
		Rule: "case = one AST (systematic step-kind sequences / comparison and logical shapes, then random ASTs with functions) x one document (battery, filter documents, path-directed), " +
			"rendered canonically and in 3 (quick) / 6 (thorough) random spellings: 0..3 spaces at every position the grammar marks optional (inside brackets, around , : == != < <= > >= =~ " +
			"&& ||, after !, inside ?( ) and parentheses, leading/trailing, around filter operands), ' vs \" quotes, + sign / leading zeros on index and slice integers, .* vs [*], .name vs " +
			"['name'], omitted leading $; judged: identical values, or errors of the same type reported for the same step INDEX (each spelling's own step texts map the reported text back " +
			"to an index) with the same expected/found; non-trivial = the spelling differs from the canonical text and the path has >= 2 steps or a filter; distinct = distinct (spelled text, document)",
		Assumptions: []string{"the renderer's list of insignificant variations is the one in the property statement"},
		Plan: func(tier string, seed int64) *harness.Plan {
			sys := newSysCases("quick")
			nSp := size(tier, 3, 6)
			return &harness.Plan{
				N:     sys.n()/2 + size(tier, 100000, 6000000),
				Setup: func(c *harness.Ctx) { hooksOn() },
				Run: func(c *harness.Ctx, k int) {
					hooksAlternate(k)
					var d *diffCase
					if k < sys.n()/2 {
						d = sys.get(k * 2)
					} else {
						r := c.Rand()
						g := gen.New(r)
						if r.Intn(2) == 0 {
							// names beyond [a-c]: quote style, dot vs bracket and escaping only matter for such names
							g.Keys = RichKeys
						}
						d = randomCase(r, g, false)
					}
					runC18(c, d, nSp)
				},
				Finish:   reportHooks,
				Required: []string{"variation:spaces", "variation:quotes", "variation:int", "variation:rootless", "same:values", "same:error"},
			}
		},
	})
}

// errShape maps an error to its frame (type, expected, found with the step text
// cut out) and the set of step indices whose text - in that spelling - it names.
func errShape(err error, texts []string) (string, map[int]bool) {
	if err == nil {
		return "", nil
	}
	s := lib.ErrString(err)
	idx := map[int]bool{}
	frame := "unmapped:" + s
	for i := len(texts) - 1; i >= 0; i-- {
		for _, pat := range []string{"path=" + texts[i] + ")", "function=" + texts[i] + ", error="} {
			if at := indexOf(s, pat); at >= 0 && at+len(pat) == len(s) || at >= 0 && pat[0] == 'f' {
				idx[i] = true
				frame = s[:at] + "<step>" + s[at+len(pat):]
			}
		}
	}
	return frame, idx
}

func sameStep(a, b map[int]bool) bool {
	for i := range a {
		if b[i] {
			return true
		}
	}
	return len(a) == 0 && len(b) == 0
}

func indexOf(s, sub string) int {
	for i := 0; i+len(sub) <= len(s); i++ {
		if s[i:i+len(sub)] == sub {
			return i
		}
	}
	return -1
}

func runC18(c *harness.Ctx, d *diffCase, nSp int) {
	r := c.Rand("spell")
	cfg := std.Config(false)
	canon := lib.Retrieve(d.Text, lib.Decode(d.Doc, d.UseNum), cfg)
	if canon.Panic != nil {
		c.Violation("panic "+d.key(), fmt.Sprintf("Retrieve panicked: %v", canon.Panic), d.detail(nil))
		return
	}
	canonFrame, canonIdx := errShape(canon.Err, d.Texts)
	for i := 0; i < nSp; i++ {
		text, texts := d.P.Render(gen.RandomSpelling(r))
		if text == d.Text {
			continue
		}
		for _, ch := range text {
			switch ch {
			case ' ':
				c.Cover("variation:spaces")
			case '"':
				c.Cover("variation:quotes")
			case '+':
				c.Cover("variation:int")
			}
		}
		if len(text) > 0 && text[0] != '$' && d.P.Root == '$' {
			c.Cover("variation:rootless")
		}
		o := lib.Retrieve(text, lib.Decode(d.Doc, d.UseNum), cfg)
		key := fmt.Sprintf("%q vs %q on %s", d.Text, text, d.Doc)
		det := d.detail(map[string]interface{}{"spelling": text, "canonical_outcome": canon.String(), "spelling_outcome": o.String()})
		if len(d.P.Steps) >= 2 || indexOf(d.Text, "?(") >= 0 {
			c.NonTrivial(text + "\x00" + d.Doc)
			if c.WantSample() && c.K%47 == 0 {
				c.Sample(map[string]interface{}{"canonical": d.Text, "spelling": text, "document": short(d.Doc, 120), "outcome": short(o.String(), 120)})
			}
		}
		switch {
		case o.Panic != nil:
			c.Violation("panic "+key, fmt.Sprintf("Retrieve panicked on a spelling: %v", o.Panic), det)
		case (o.Err == nil) != (canon.Err == nil):
			c.Violation("outcome "+key, "one spelling succeeds and the other fails", det)
		case o.Err == nil:
			c.Cover("same:values")
			if !lib.SameList(o.Res, canon.Res) {
				c.Violation("values "+key, "two spellings of the same path return different values", det)
			}
		default:
			c.Cover("same:error")
			if frame, idx := errShape(o.Err, texts); frame != canonFrame || !sameStep(idx, canonIdx) {
				det["canonical_error_shape"] = fmt.Sprint(canonFrame, canonIdx)
				det["spelling_error_shape"] = fmt.Sprint(frame, idx)
				c.Violation("error "+key, "two spellings of the same path fail with a different error type or for a different step", det)
			}
		}
	}
}
