package checks

import (
	"encoding/json"
	"fmt"
	"strconv"
	"strings"

	"verif/internal/gen"
	"verif/internal/harness"
	"verif/internal/lib"
)

// C18 — equivalent spellings of a path behave identically.
func init() {
	harness.Register(&harness.Check{
		ID:    "C18",
		Level: "exploration",
		Rule: "case = one AST (systematic step-kind sequences / comparison and logical shapes, then random ASTs with functions) x one document (battery, filter documents, path-directed), " +
			"rendered canonically and in 3 (quick) / 6 (thorough) random spellings: 0..3 spaces at every position the grammar marks optional (inside brackets, around , : == != < <= > >= =~ " +
			"&& ||, after !, inside ?( ) and parentheses, leading/trailing, around filter operands), ' vs \" quotes, + sign / leading zeros on index and slice integers, .* vs [*], .name vs " +
			"['name'], omitted leading $; judged: identical values, or errors of the same type reported for the same step INDEX (each spelling's own step texts map the reported text back " +
			"to an index) with the same expected/found; a second segment takes RAW name text (letters, blanks, non-ASCII, DEL / C1, raw C0 control characters, escape sequences valid in both quote styles) and puts the very same characters between single and between double quotes - at root, after `..`, in a multi-name list and inside a filter - on a document that contains the decoded name when the text decodes: both quote styles must give the same values or the same error type; a third segment spells index, union, slice-bound and step integers of one and more digits (0..130, also negative) with `+`, 1..40 leading zeros and combinations, on arrays of up to 131 elements: every spelling must select what the plain decimal spelling selects; a fourth segment puts the same RAW text (same chunks, incl. \\uXXXX sequences, which a filter literal does not decode) as a filter string LITERAL between single and between double quotes in ten filter shapes (either operand side, ==, !=, under &&, ||, !, rootless, after `..`), on members holding the raw text, the text with backslashes removed, and its JSON decoding: both quote styles must select the same members or fail with the same error type; non-trivial = the spelling differs from the canonical text and the path has >= 2 steps or a filter; distinct = distinct (spelled text, document)",
		Assumptions: []string{"the renderer's list of insignificant variations is the one in the property statement"},
		Plan: func(tier string, seed int64) *harness.Plan {
			sys := newSysCases("quick")
			nSp := size(tier, 3, 6)
			nMain := sys.n()/2 + size(tier, 100000, 6000000)
			return &harness.Plan{
				N:     nMain + size(tier, 37500, 1875000),
				Setup: func(c *harness.Ctx) { hooksOn() },
				Run: func(c *harness.Ctx, k int) {
					hooksAlternate(k)
					var d *diffCase
					if k >= nMain {
						switch k % 5 {
						case 3:
							runC18Ints(c)
						case 4:
							runC18LitQuotes(c)
						default:
							runC18Quotes(c)
						}
						return
					}
					if k < sys.n()/2 {
						d = sys.get(k * 2)
					} else {
						r := c.Rand()
						g := gen.New(r)
						if r.Intn(2) == 0 {
							// names beyond [a-c]: quote style, dot vs bracket and escaping only matter for such names
							g.Keys = RichKeys
						}
						d = randomCase(r, g, false)
					}
					runC18(c, d, nSp)
				},
				Finish:   reportHooks,
				Required: []string{"variation:spaces", "variation:quotes", "variation:int", "variation:rootless", "variation:leading-blank", "same:values", "same:error", "quotes:raw-text-values", "quotes:raw-text-error", "ints:spelled", "litquotes:raw-text-values", "litquotes:selects-some", "litquotes:selects-part"},
			}
		},
	})
}

// errShape maps an error to its frame (type, expected, found with the step text
// cut out) and the set of step indices whose text - in that spelling - it names.
func errShape(err error, texts []string) (string, map[int]bool) {
	if err == nil {
		return "", nil
	}
	s := lib.ErrString(err)
	idx := map[int]bool{}
	frame := "unmapped:" + s
	for i := len(texts) - 1; i >= 0; i-- {
		for _, pat := range []string{"path=" + texts[i] + ")", "function=" + texts[i] + ", error="} {
			if at := indexOf(s, pat); at >= 0 && at+len(pat) == len(s) || at >= 0 && pat[0] == 'f' {
				idx[i] = true
				frame = s[:at] + "<step>" + s[at+len(pat):]
			}
		}
	}
	return frame, idx
}

func sameStep(a, b map[int]bool) bool {
	for i := range a {
		if b[i] {
			return true
		}
	}
	return len(a) == 0 && len(b) == 0
}

func indexOf(s, sub string) int {
	for i := 0; i+len(sub) <= len(s); i++ {
		if s[i:i+len(sub)] == sub {
			return i
		}
	}
	return -1
}

func runC18(c *harness.Ctx, d *diffCase, nSp int) {
	r := c.Rand("spell")
	cfg := std.Config(false)
	canon := lib.Retrieve(d.Text, lib.Decode(d.Doc, d.UseNum), cfg)
	if canon.Panic != nil {
		c.Violation("panic "+d.key(), fmt.Sprintf("Retrieve panicked: %v", canon.Panic), d.detail(nil))
		return
	}
	canonFrame, canonIdx := errShape(canon.Err, d.Texts)
	for i := 0; i < nSp; i++ {
		text, texts := d.P.Render(gen.RandomSpelling(r))
		// leading / trailing blanks around the whole path (with and without its leading `$`)
		if r.Intn(3) == 0 {
			text = "  "[:1+r.Intn(2)] + text
			c.Cover("variation:leading-blank")
		}
		if r.Intn(4) == 0 {
			text += "  "[:1+r.Intn(2)]
		}
		if text == d.Text {
			continue
		}
		for _, ch := range text {
			switch ch {
			case ' ':
				c.Cover("variation:spaces")
			case '"':
				c.Cover("variation:quotes")
			case '+':
				c.Cover("variation:int")
			}
		}
		if len(text) > 0 && text[0] != '$' && d.P.Root == '$' {
			c.Cover("variation:rootless")
		}
		o := lib.Retrieve(text, lib.Decode(d.Doc, d.UseNum), cfg)
		key := fmt.Sprintf("%q vs %q on %s", d.Text, text, d.Doc)
		det := d.detail(map[string]interface{}{"spelling": text, "canonical_outcome": canon.String(), "spelling_outcome": o.String()})
		if len(d.P.Steps) >= 2 || indexOf(d.Text, "?(") >= 0 {
			c.NonTrivial(text + "\x00" + d.Doc)
			if c.WantSample() && c.K%47 == 0 {
				c.Sample(map[string]interface{}{"canonical": d.Text, "spelling": text, "document": short(d.Doc, 120), "outcome": short(o.String(), 120)})
			}
		}
		switch {
		case o.Panic != nil:
			c.Violation("panic "+key, fmt.Sprintf("Retrieve panicked on a spelling: %v", o.Panic), det)
		case (o.Err == nil) != (canon.Err == nil):
			c.Violation("outcome "+key, "one spelling succeeds and the other fails", det)
		case o.Err == nil:
			c.Cover("same:values")
			if !lib.SameList(o.Res, canon.Res) {
				c.Violation("values "+key, "two spellings of the same path return different values", det)
			}
		default:
			c.Cover("same:error")
			if frame, idx := errShape(o.Err, texts); frame != canonFrame || !sameStep(idx, canonIdx) {
				det["canonical_error_shape"] = fmt.Sprint(canonFrame, canonIdx)
				det["spelling_error_shape"] = fmt.Sprint(frame, idx)
				c.Violation("error "+key, "two spellings of the same path fail with a different error type or for a different step", det)
			}
		}
	}
}

// rawNameChunks: characters and escape sequences that mean the same between single and between double quotes
// (neither quote character itself). Raw control characters are rejected by the JSON-style decoding - in BOTH styles.
var rawNameChunks = []string{"a", "b", "Z", "0", " ", "-", ".", "*", "$", "@", "[", "]", "(", ")", "?", ",", ":", "é", "名", "😀", "\x7f", "\u0085", "\u00a0",
	"\t", "\n", "\r", "\x01", "\x08", "\x0c", "\x1f", "\x00", `\\`, `\/`, `\b`, `\f`, `\n`, `\r`, `\t`, `\u0041`, `\u00e9`, `\ud83d\ude00`, `\ud800`, `\u0000`}

func runC18Quotes(c *harness.Ctx) {
	r := c.Rand()
	var raw string
	for n := 1 + r.Intn(6); n > 0; n-- {
		raw += rawNameChunks[r.Intn(len(rawNameChunks))]
	}
	// the document holds the decoded name (when the text decodes as a JSON string) next to near misses
	doc := map[string]interface{}{"a": float64(1), raw: "raw-text-as-key"}
	var decoded string
	if err := json.Unmarshal([]byte(`"`+raw+`"`), &decoded); err == nil {
		doc[decoded] = "HIT"
	}
	forms := []struct{ name, pre, post string }{
		{"root", "$[", "]"}, {"recursive", "$..[", "]"}, {"multi", "$['a',", "]"}, {"spaced", "$[ ", " ]"}, {"filter", "$[?(@[", "])]"}, {"rootless", "[", "]"},
	}
	f := forms[r.Intn(len(forms))]
	var src interface{} = doc
	if f.name == "filter" {
		src = []interface{}{doc, map[string]interface{}{"a": float64(2)}}
	}
	sq, dq := f.pre+"'"+raw+"'"+f.post, f.pre+`"`+raw+`"`+f.post
	o1, o2 := lib.Retrieve(sq, src), lib.Retrieve(dq, src)
	key := fmt.Sprintf("quotes %q vs %q", sq, dq)
	det := map[string]interface{}{"single_quoted": sq, "double_quoted": dq, "single_quoted_go": fmt.Sprintf("%q", sq), "double_quoted_go": fmt.Sprintf("%q", dq),
		"document": lib.JS(src), "single_quoted_outcome": o1.String(), "double_quoted_outcome": o2.String()}
	c.NonTrivial(sq)
	switch {
	case o1.Panic != nil || o2.Panic != nil:
		c.Violation("panic "+key, "Retrieve panicked on a quoted name", det)
	case (o1.Err == nil) != (o2.Err == nil):
		c.Violation("outcome "+key, "the same name text succeeds between one kind of quotes and fails between the other", det)
	case o1.Err == nil:
		c.Cover("quotes:raw-text-values")
		if !lib.SameList(o1.Res, o2.Res) {
			c.Violation("values "+key, "the same name text selects different values between single and double quotes", det)
		}
	default:
		c.Cover("quotes:raw-text-error")
		if t1, t2 := fmt.Sprintf("%T", o1.Err), fmt.Sprintf("%T", o2.Err); t1 != t2 {
			c.Violation("error "+key, "the same name text fails with different error types between single and double quotes", det)
		}
	}
}

// runC18LitQuotes: the same RAW text as a filter STRING LITERAL between single and between double quotes (the grammar
// decodes both with the same backslash removal, so every escape sequence - also \uXXXX, which is not decoded in a literal -
// means the same in both). The members hold the raw text, the text with the backslashes removed, and the JSON decoding of
// the text, so that whichever decoding one quote style would wrongly apply changes the selection.
func runC18LitQuotes(c *harness.Ctx) {
	r := c.Rand()
	var raw string
	for n := 1 + r.Intn(5); n > 0; n-- {
		raw += rawNameChunks[r.Intn(len(rawNameChunks))]
	}
	var plain []byte
	for i := 0; i < len(raw); i++ {
		if raw[i] == '\\' && i+1 < len(raw) {
			i++
		}
		plain = append(plain, raw[i])
	}
	vals := []interface{}{raw, string(plain), "a", float64(1), nil}
	var decoded string
	if err := json.Unmarshal([]byte(`"`+raw+`"`), &decoded); err == nil {
		vals = append(vals, decoded)
	}
	var arr []interface{}
	for i, v := range vals {
		arr = append(arr, map[string]interface{}{"v": v, "i": float64(i)})
	}
	var src interface{} = arr
	forms := []struct{ pre, post string }{
		{"$[?(@.v == ", ")]"}, {"$[?(", " == @.v)]"}, {"$[?(@.v != ", ")]"}, {"$[?( @.v==", " )].i"}, {"$[?(@.i > 0 && @.v == ", ")]"},
		{"$[?(@.v == 'a' || @.v == ", ")]"}, {"$[?(!(", " != @.v))]"}, {"$[*].v[?(@ == ", ")]"}, {"[?(@.v == ", ")]"}, {"$..[?(@.v == ", ")]"},
	}
	f := forms[r.Intn(len(forms))]
	sq, dq := f.pre+"'"+raw+"'"+f.post, f.pre+`"`+raw+`"`+f.post
	o1, o2 := lib.Retrieve(sq, src), lib.Retrieve(dq, src)
	key := fmt.Sprintf("literal quotes %q vs %q", sq, dq)
	det := map[string]interface{}{"single_quoted": sq, "double_quoted": dq, "single_quoted_go": fmt.Sprintf("%q", sq), "double_quoted_go": fmt.Sprintf("%q", dq),
		"document": lib.JS(src), "single_quoted_outcome": o1.String(), "double_quoted_outcome": o2.String()}
	c.NonTrivial(sq)
	switch {
	case o1.Panic != nil || o2.Panic != nil:
		c.Violation("panic "+key, "Retrieve panicked on a quoted filter literal", det)
	case (o1.Err == nil) != (o2.Err == nil):
		c.Violation("outcome "+key, "the same literal text succeeds between one kind of quotes and fails between the other", det)
	case o1.Err == nil:
		c.Cover("litquotes:raw-text-values")
		c.Cover("litquotes:selects-some")
		if len(o1.Res) < len(arr) {
			c.Cover("litquotes:selects-part")
		}
		if !lib.SameList(o1.Res, o2.Res) {
			c.Violation("values "+key, "the same literal text selects different members between single and double quotes", det)
		}
	default:
		c.Cover("litquotes:raw-text-error")
		if t1, t2 := fmt.Sprintf("%T", o1.Err), fmt.Sprintf("%T", o2.Err); t1 != t2 {
			c.Violation("error "+key, "the same literal text fails with different error types between single and double quotes", det)
		}
	}
}

// runC18Ints: the same integer with an explicit + sign and / or leading zeros, values with one, two and three digits (a
// leading zero must not switch the base: 010 is ten, 08 is eight).
func runC18Ints(c *harness.Ctx) {
	r := c.Rand()
	n := []int{3, 9, 12, 20, 70, 131}[r.Intn(6)]
	doc := array(n)
	val := func() int64 {
		switch r.Intn(4) {
		case 0:
			return int64(r.Intn(10))
		case 1:
			return int64(8 + r.Intn(12))
		case 2:
			return int64(r.Intn(131))
		}
		return -int64(r.Intn(n + 2))
	}
	spell := func(v int64) string {
		neg := v < 0
		if neg {
			v = -v
		}
		digits := strconv.FormatInt(v, 10)
		zeros := strings.Repeat("0", []int{0, 1, 2, 3, 1, 2, 17, 18, 19, 20, 21, 25, 40}[r.Intn(13)]) // also past any plausible length limit of an integer text
		switch {
		case neg:
			return "-" + zeros + digits
		case r.Intn(3) == 0:
			return "+" + zeros + digits
		}
		return zeros + digits
	}
	plain := func(v int64) string { return strconv.FormatInt(v, 10) }
	a, b, st := val(), val(), int64(1+r.Intn(12))
	if r.Intn(3) == 0 {
		st = -st
	}
	type form struct{ canon, spelled string }
	forms := []form{
		{"$[" + plain(a) + "]", "$[" + spell(a) + "]"},
		{"$[" + plain(a) + "," + plain(b) + "]", "$[" + spell(a) + "," + spell(b) + "]"},
		{"$[" + plain(a) + ":" + plain(b) + "]", "$[" + spell(a) + ":" + spell(b) + "]"},
		{"$[" + plain(a) + ":" + plain(b) + ":" + plain(st) + "]", "$[" + spell(a) + ":" + spell(b) + ":" + spell(st) + "]"},
		{"$[::" + plain(st) + "]", "$[::" + spell(st) + "]"},
		{"$..[" + plain(a) + "]", "$..[ " + spell(a) + " ]"},
	}
	f := forms[r.Intn(len(forms))]
	if f.canon == f.spelled {
		return
	}
	c.Cover("ints:spelled")
	o1, o2 := lib.Retrieve(f.canon, doc), lib.Retrieve(f.spelled, doc)
	key := fmt.Sprintf("ints %q vs %q on %d elements", f.canon, f.spelled, n)
	det := map[string]interface{}{"plain": f.canon, "spelled": f.spelled, "array_length": n, "plain_outcome": short(o1.String(), 300), "spelled_outcome": short(o2.String(), 300)}
	if o1.Err == nil {
		c.NonTrivial(f.spelled + "#" + strconv.Itoa(n))
	}
	switch {
	case o1.Panic != nil || o2.Panic != nil:
		c.Violation("panic "+key, "Retrieve panicked on an integer spelling", det)
	case (o1.Err == nil) != (o2.Err == nil):
		c.Violation("outcome "+key, "one spelling of the integers succeeds and the other fails", det)
	case o1.Err == nil && !lib.SameList(o1.Res, o2.Res):
		c.Violation("values "+key, "an explicit + sign or leading zeros changed what the subscript selects", det)
	case o1.Err != nil && fmt.Sprintf("%T", o1.Err) != fmt.Sprintf("%T", o2.Err):
		c.Violation("error "+key, "two spellings of the same integers fail with different error types", det)
	}
}
