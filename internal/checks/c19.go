package checks

import (
	"context"
	"crypto/sha1"
	"encoding/hex"
	"errors"
	"fmt"
	"os"
	"os/exec"
	"path/filepath"
	"strings"
	"time"

	"github.com/AsaiYusuke/jsonpath"
	"verif/internal/gen"
	"verif/internal/harness"
	"verif/internal/hooks"
	"verif/internal/lib"
)

// histPaths: valid paths and paths failing in each action that can fail.
var histPaths = []string{
	`$.a`, `$.f()`, `$.g()`, `$.*.f().g()`, `$[?(@.a == 1)]`, `$[?(@.f() == 1)]`, `$['a','b'].g()`, `$..['a','b'].c`, `$[?(@.g().g() == 1)]`, `$[1:2:3].f()`, `a.b`,
	`$[?(1 < 2)]`, `$[?($.a > 1)]`, `$.b[?(@.c)].c`, `$[?(@.a && @.h())]`, `$[?($.a.h())]`, `$.h()`, `$.a.h().f()`, `$[?(@.a =~ /1/)]`, `$.b[0,1]`, `$..*.f()`, `$['a',*].g().f()`,
	// failing: bad index integer, bad float, bad regex, bad quoted string, unknown function, script, value group operand, two @, trailing garbage, empty, unterminated
	`$[99999999999999999999]`, `$[0:1:9223372036854775808]`, `$[?(@.a == 1e400)]`, `$[?(@.a =~ /(/)]`, "$['\x01']", `$.nofn()`, `$.a.nofn().f()`, `$[(1+1)]`, `$[?(@.* == 1)]`,
	`$[?(@..a == 1)]`, `$[?(@.a == @.b)]`, `$.a xx`, ``, `$[?(@.a == 1)`, `$[`, `$.f().`, `$[?(@.f().nofn() == 1)]`, `$[?(@.a == 1 && @.b == 1e999)]`, `$..[?(@.nofn())]`, `$['a',`, `$[?(@.a=~/a/ || @.nofn())]`,
	`$[?(@[0:1] > 1)]`, `$[?($..a =~ /a/)]`,
	// paths without a leading $ (bracket / name / wildcard first), nested filters, filters inside filter operands
	`[?(@.a)]`, `[?(@.b)].b`, `[0]`, `['a','b']`, `[*].a`, `*`, `[0:2]`, `a[?(@.c)]`, `[?(@.a == 1)].a`, `$[?(@[?(@.c)])]`, `$.b[?(@[?(@.c > 1)].c == 3)]`,
	`$[?(@.a.f() == 'x' && @[?(@.nofn())])]`, `$[?(@[?(@.a == 1e999)])]`, `$[?(@.a[(1)])]`, `$.x[?(@.a.nofn())]`, `$[?(@[99999999999999999999])]`, `$[?($[?(@.nofn())])]`, `[?(@.nofn())]`,
	`$[?(@.a == 1 || @.b.g() == 2)]`, `$[?(!@.a)]`, `$..[?(@.c)]`, "$[?(@.a == 'x\x00')]", `$.a.g().g()`, `$[?(@.g().f().g() == 1)]`,
	// the same raw token text in two different roles (a quoted name / a string literal whose content looks like one, escaped dot names /
	// bracket names with the same backslashes, a regex / a string literal with the same text): whatever is remembered about a text
	// in one role must not be used for the other
	`$["a"]`, `$[?(@ == '"a"')]`, `$[?(@.a == '"a"')]`, `$['a']`, `$[?(@ == "'a'")]`, `$["b"]`, `$[?(@ == '"b"')]`, `$.a\.b`, `$['a\\.b']`, `$[?(@ == 'a\.b')]`, `$[?(@ =~ /a\.b/)]`,
	`$["a\nb"]`, `$[?(@ == '"a\nb"')]`, `$[?(@ == 'a')]`, `$.a`, `$[?(@ =~ /a/)]`, `$['"a"']`,
	// ... with escapes whose meaning depends on the role (JSON-style in a name, backslash-drops in a string literal)
	`$['a\nb']`, `$[?(@ == 'a\nb')]`, `$.s[?(@ == 'a\nb')]`, `$.s[?(@ == "a\nb")]`, `$['\n']`, `$[?(@ == '\n')]`, `$.s[?(@ == "\n")]`, `$["\n"]`, `$['\u0061']`, `$.s[?(@ == '\u0061')]`, `$["a\tb"]`, `$.s[?(@ == "a\tb")]`,
	// degenerate tokens: the empty regex, the empty string literal, the empty names
	`$[?(@.a =~ //)]`, `$[?(@ =~ //)]`, `$.s[?(@ =~ //)]`, `$[?(@.a == '')]`, `$['']`, `$[""]`, `$[?(@ == "")]`,
}

var histDocs = []string{`{"a":1,"b":[1,2,{"c":3}]}`, `[{"a":1},{"a":2,"b":1},[1,2,3]]`, `{"a":{"c":1},"b":{"c":2}}`, `[[1,2],[3]]`,
	// members whose names / values are the texts above with and without their quote characters and backslashes
	`{"a":"\"a\"","\"a\"":"quoted-a","'a'":"single-quoted-a","a.b":"a.b","a\\.b":"a-backslash-dot-b","a\nb":"a-lf-b","anb":"a-n-b","\n":"lf","n":"n","u0061":"u-0061","a\tb":"a-tab-b","atb":"a-t-b","s":["a","\"a\"","'a'","a.b","a\\.b","\"b\"","\"a\nb\"","axb","anb","a\nb","n","\n","u0061","a\tb","atb"]}`}

// histConfigs builds the configurations; every user function tags its output
// with the configuration it belongs to, so a leak between configurations is visible.
func histConfigs() []func() []jsonpath.Config {
	var out []func() []jsonpath.Config
	for _, spec := range histConfigSpecs {
		spec := spec
		switch spec.tag {
		case "none":
			out = append(out, func() []jsonpath.Config { return nil })
		default:
			out = append(out, func() []jsonpath.Config {
				c := jsonpath.Config{}
				spec.apply(&c)
				return []jsonpath.Config{c}
			})
		}
	}
	return out
}

// cfgSpec: what one configuration registers. apply sets all of it on an existing Config (replacing what
// is registered under the same ids), so a live Config object can be moved from one specification to any
// superset specification in place and is then equal in content to a fresh Config of that specification.
type cfgSpec struct {
	tag                   string
	f, g, h, acc, swapped bool
}

func (s cfgSpec) apply(c *jsonpath.Config) {
	tag := s.tag
	if s.f {
		c.SetFilterFunction("f", func(v interface{}) (interface{}, error) { return fmt.Sprintf("f@%s(%s)", tag, lib.JS(v)), nil })
	}
	if s.g {
		c.SetAggregateFunction("g", func(v []interface{}) (interface{}, error) { return fmt.Sprintf("g@%s(%d)", tag, len(v)), nil })
	}
	if s.h {
		c.SetFilterFunction("h", func(v interface{}) (interface{}, error) { return nil, errors.New("h@" + tag + " fails") })
	}
	if s.swapped {
		// the same names with swapped roles
		c.SetFilterFunction("g", func(v interface{}) (interface{}, error) { return "G-as-filter@" + tag, nil })
		c.SetAggregateFunction("f", func(v []interface{}) (interface{}, error) { return "F-as-aggregate@" + tag, nil })
	}
	if s.acc {
		c.SetAccessorMode()
	}
}

// within: everything s registers is also registered by t (swapped registers g as a filter and f as an aggregate,
// which f/g of t would not replace - so a swapped specification is only within a swapped one).
func (s cfgSpec) within(t cfgSpec) bool {
	le := func(a, b bool) bool { return !a || b }
	return le(s.f, t.f) && le(s.g, t.g) && le(s.h, t.h) && le(s.acc, t.acc) && le(s.swapped, t.swapped)
}

var histConfigSpecs = []cfgSpec{
	{tag: "none"},
	{tag: "c1", f: true, g: true},
	{tag: "c2", f: true, g: true, h: true},
	{tag: "c3", f: true, g: true, acc: true},
	{tag: "c4", g: true},
	{tag: "c5", acc: true},
	{tag: "c6", f: true, g: true, h: true, acc: true},
	{tag: "c7", swapped: true},
	{tag: "empty"},
	{tag: "c9", f: true, g: true, swapped: true}, // every id in both tables
	{tag: "c10", f: true, g: true, h: true, acc: true, swapped: true},
}

// behaviour renders what a parsed function does on the probe battery.
func behaviour(f lib.Func) string {
	var b strings.Builder
	for _, d := range histDocs {
		o := lib.Call(f, lib.Decode(d, false))
		switch {
		case o.Panic != nil:
			fmt.Fprintf(&b, "PANIC(%v);", o.Panic)
		case o.Err != nil:
			fmt.Fprintf(&b, "E(%s);", lib.ErrString(o.Err))
		default:
			for _, x := range o.Res {
				if a, ok := x.(jsonpath.Accessor); ok {
					fmt.Fprintf(&b, "A<%s,set=%v>", lib.JS(a.Get()), a.Set != nil)
				} else {
					fmt.Fprintf(&b, "%s,", lib.JS(x))
				}
			}
			b.WriteString(";")
		}
	}
	return b.String()
}

// parseOutcome: the outcome of Parse(histPaths[pi], config ci): the error or the behaviour of the function.
// mutate: after Parse, modify the Config (other functions under the same names, accessor mode) before using the function.
func parseOutcome(pi, ci int, mutate bool) string { return parseOutcomeText(histPaths[pi], ci, mutate) }

func parseOutcomeText(text string, ci int, mutate bool) string {
	out, _ := parseOutcomeWith(text, configsFor(ci), mutate)
	return out
}

// configsFor: the Config arguments of a call. Codes below 100 are one configuration; code a*100+b is a call that
// passes TWO Config values, configuration a followed by configuration b (Parse is variadic).
func configsFor(code int) []jsonpath.Config {
	if code < 100 {
		return histConfigs()[code]()
	}
	return append(histConfigs()[code/100](), histConfigs()[code%100]()...)
}

func parseOutcomeWith(text string, cfgs []jsonpath.Config, mutate bool) (string, lib.Func) {
	po := lib.Parse(text, cfgs...)
	if po.Panic != nil {
		return fmt.Sprintf("PANIC(%v)", po.Panic), nil
	}
	if po.Err != nil {
		if po.F != nil {
			return "BOTH " + lib.ErrString(po.Err), nil
		}
		return "ERR " + lib.ErrString(po.Err), nil
	}
	if po.F == nil {
		return "NIL-NIL", nil
	}
	if mutate && len(cfgs) > 0 {
		cfgs[0].SetFilterFunction("f", func(v interface{}) (interface{}, error) { return "MUTATED-f", nil })
		cfgs[0].SetAggregateFunction("g", func(v []interface{}) (interface{}, error) { return "MUTATED-g", nil })
		cfgs[0].SetFilterFunction("h", func(v interface{}) (interface{}, error) { return "MUTATED-h", nil })
		cfgs[0].SetAccessorMode()
	}
	return behaviour(po.F), po.F
}

// FreshOutcomeMain is `vcheck fresh-outcome <pi> <ci>`: the call made first in a fresh process.
func FreshOutcomeMain(args []string) int {
	// never outlive the worker that asked: if the library hangs on this call the process ends by itself (exit 9),
	// an orphan spinning forever would slow every later run on the machine
	go func() {
		time.Sleep(90 * time.Second)
		os.Exit(9)
	}()
	var pi, ci int
	fmt.Sscanf(args[1], "%d", &ci)
	hooksOn()
	if strings.HasPrefix(args[0], "hex:") {
		b, err := hex.DecodeString(args[0][4:])
		if err != nil {
			return 2
		}
		fmt.Print(parseOutcomeText(string(b), ci, false))
		return 0
	}
	fmt.Sscanf(args[0], "%d", &pi)
	fmt.Print(parseOutcome(pi, ci, false))
	return 0
}

// getText: fresh-process outcome of Parse(text, cfg ci) for a path outside the fixed list.
func (fc *freshCache) getText(c *harness.Ctx, text string, ci int) (string, bool) {
	sum := sha1.Sum([]byte(text))
	key := fmt.Sprintf("t%x-%d", sum[:10], ci)
	if v, ok := fc.memText[key]; ok {
		return v, v != "CRASH" && v != "TIMEOUT"
	}
	path := filepath.Join(fc.dir, key+".txt")
	if b, err := os.ReadFile(path); err == nil {
		fc.memText[key] = string(b)
		return string(b), true
	}
	out, err := freshRun(c, "hex:"+hex.EncodeToString([]byte(text)), ci)
	if err == errFreshTimeout {
		fc.memText[key] = "TIMEOUT"
		return "TIMEOUT", false
	}
	if err != nil {
		c.Violation(fmt.Sprintf("fresh-crash path=%q cfg=%d", text, ci), "Parse (or the returned function on the probe documents) crashed a fresh process",
			map[string]interface{}{"path": text, "config": ci, "error": err.Error()})
		fc.memText[key] = "CRASH"
		return "CRASH", false
	}
	tmp := fmt.Sprintf("%s.%d.tmp", path, os.Getpid())
	os.WriteFile(tmp, out, 0o644)
	os.Rename(tmp, path)
	fc.memText[key] = string(out)
	return string(out), true
}

var errFreshTimeout = errors.New("fresh process did not answer")

// freshRun runs `vcheck fresh-outcome` with a limit. A fresh process that does not answer (it ends itself after 90 s) is
// NOT judged here - whether a library call returns is C02's / C03's verdict for the same input, with their confirmation
// protocol; the history is skipped and the run says so.
func freshRun(c *harness.Ctx, what string, ci int) ([]byte, error) {
	ctx, cancel := context.WithTimeout(context.Background(), 120*time.Second)
	defer cancel()
	cmd := exec.CommandContext(ctx, os.Args[0], "fresh-outcome", what, fmt.Sprint(ci))
	out, err := cmd.Output()
	if ee, ok := err.(*exec.ExitError); ctx.Err() != nil || ok && ee.ExitCode() == 9 {
		c.Inconclusive("a fresh-process call did not answer within its limit (no verdict here; hangs are judged by C02/C03): " + short(what, 80))
		return nil, errFreshTimeout
	}
	return out, err
}

type freshCache struct {
	dir     string
	mem     map[[2]int]string
	memText map[string]string
}

func (fc *freshCache) get(c *harness.Ctx, pi, ci int) (string, bool) {
	if v, ok := fc.mem[[2]int{pi, ci}]; ok {
		return v, v != "CRASH" && v != "TIMEOUT"
	}
	path := filepath.Join(fc.dir, fmt.Sprintf("%d-%d.txt", pi, ci))
	if b, err := os.ReadFile(path); err == nil {
		fc.mem[[2]int{pi, ci}] = string(b)
		return string(b), true
	}
	out, err := freshRun(c, fmt.Sprint(pi), ci)
	if err == errFreshTimeout {
		fc.mem[[2]int{pi, ci}] = "TIMEOUT"
		return "TIMEOUT", false
	}
	if err != nil {
		// the fresh process died: that is a crash of Parse on its own
		c.Violation(fmt.Sprintf("fresh-crash path=%q cfg=%d", histPaths[pi], ci), "Parse (or the returned function on the probe documents) crashed a fresh process",
			map[string]interface{}{"path": histPaths[pi], "config": ci, "error": err.Error()})
		fc.mem[[2]int{pi, ci}] = "CRASH"
		return "CRASH", false
	}
	tmp := fmt.Sprintf("%s.%d.tmp", path, os.Getpid())
	os.WriteFile(tmp, out, 0o644)
	os.Rename(tmp, path)
	fc.mem[[2]int{pi, ci}] = string(out)
	return string(out), true
}

// C19 — Parse depends only on the path and the Config given to that call.
func init() {
	harness.Register(&harness.Check{
		ID:    "C19",
		Level: "exploration",
		Rule: fmt.Sprintf("case = one history of 2..10 Parse calls over %d paths (valid ones and ones failing in every action that can fail: bad index integer, bad float, bad regex, bad quoted "+
			"string, unknown function, script, value-group operand, two @, trailing garbage, empty, unterminated) x 11 configurations (none, empty, function sets whose outputs are tagged with "+
			"the configuration, a set with the same names in swapped roles, accessor mode); the OUTCOME of each call - the exact error, or the behaviour of the returned function on 4 probe "+
			"documents incl. accessor-ness and Set==nil - is compared with the outcome of the same call made as the first call of a fresh process (one child process per distinct call, cached); "+
			"one call per history additionally mutates its Config after Parse; a third of the histories use ONE live Config object for all calls, modified in place between them "+
			"(functions replaced under the same ids, ids added to the other table, accessor mode switched on - always to a content that equals one of the configurations), and the function "+
			"parsed before each modification must keep its behaviour, and a quarter of those calls pass a SECOND Config value of another configuration after the live one (compared with the same two-value call made first in a fresh process; later calls with the live object alone must not see the second one's functions); the parser-residue hook is read after every call; non-trivial = the history contains a failing call followed by "+
			"a succeeding one, or two different configurations; distinct = distinct histories", len(histPaths)),
		Assumptions: []string{"the outcome of the first call in a fresh process is the history-free meaning of Parse(path, config)"},
		Plan: func(tier string, seed int64) *harness.Plan {
			fc := &freshCache{mem: map[[2]int]string{}, memText: map[string]string{}}
			return &harness.Plan{
				N: size(tier, 12000, 400000),
				Setup: func(c *harness.Ctx) {
					hooksOn()
					// inside this run's work directory (recreated empty by the parent for every run): never reuse outcomes of another tree
					fc.dir = filepath.Join(os.Getenv("VERIF_WORKDIR"), "fresh")
					os.MkdirAll(fc.dir, 0o755)
				},
				Run:      func(c *harness.Ctx, k int) { runC19(c, fc) },
				Finish:   reportHooks,
				Required: []string{"history:generated-path", "history:fail-then-success", "history:config-switch", "history:config-mutated", "history:live-config-modified-in-place", "history:two-config-values", "outcome:error", "outcome:function", "residue:clean"},
			}
		},
	})
}

func runC19(c *harness.Ctx, fc *freshCache) {
	r := c.Rand()
	ncfg := len(histConfigs())
	n := 2 + r.Intn(9)
	type call struct {
		pi, ci int
		text   string // non-empty: a path outside the fixed list (pi = -1)
		extra  int    // > 0: the call passes a second Config value of this configuration after its own
	}
	// two generated paths per history: a random AST in a random spelling, possibly mutated into a failing one
	g := gen.New(r)
	g.Funcs, g.Aggrs = []string{"f", "h"}, []string{"g"}
	var extra []string
	for len(extra) < 2 {
		t, _ := g.Path(4, 2).Render(gen.RandomSpelling(r))
		if r.Intn(2) == 0 {
			t = gen.Mutate(r, t, 1+r.Intn(2))
		}
		if !strings.ContainsRune(t, 0) && len(t) < 200 {
			extra = append(extra, t)
		}
	}
	calls := make([]call, n)
	for i := range calls {
		calls[i] = call{pi: r.Intn(len(histPaths)), ci: r.Intn(ncfg)}
		if r.Intn(4) == 0 {
			calls[i].pi, calls[i].text = -1, extra[r.Intn(len(extra))]
			c.Cover("history:generated-path")
		}
		if i > 0 && r.Intn(3) == 0 {
			calls[i].pi, calls[i].text = calls[i-1].pi, calls[i-1].text // same path, other config: where a leak would show
		}
	}
	mutateAt := r.Intn(n)
	// live-Config histories: ONE Config object serves the whole history and is moved in place from one specification to a
	// superset specification between the calls (functions replaced under the same ids, ids added to the other table,
	// accessor mode switched on); at every call it is equal in content to a fresh Config of the current specification
	shared := r.Intn(3) == 0
	var live jsonpath.Config
	liveSpec := 8 // "empty"
	var prevF lib.Func
	var prevBehaviour, prevCall string
	if shared {
		mutateAt = -1
		for i := range calls {
			if calls[i].ci == 0 && r.Intn(2) == 0 {
				continue // a call without any Config in between
			}
			var ups []int
			for ci, sp := range histConfigSpecs {
				if ci != 0 && histConfigSpecs[liveSpec].within(sp) && (ci == liveSpec || sp.tag != "empty") {
					ups = append(ups, ci)
				}
			}
			calls[i].ci = ups[r.Intn(len(ups))]
			liveSpec = calls[i].ci
			if r.Intn(4) == 0 {
				calls[i].extra = 1 + r.Intn(len(histConfigSpecs)-1)
			}
			if i > 0 && r.Intn(2) == 0 {
				calls[i].pi, calls[i].text = calls[i-1].pi, calls[i-1].text // the same path again with the Config modified in place
			}
		}
		liveSpec = 8
	}
	var hist []string
	prevFailed, prevCfg := false, -1
	interesting := false
	for i, cl := range calls {
		var want, got, text string
		var ok bool
		code := cl.ci
		if cl.extra > 0 && cl.ci != 0 {
			code = cl.ci*100 + cl.extra
		}
		if cl.pi < 0 {
			text = cl.text
			want, ok = fc.getText(c, text, code)
		} else {
			text = histPaths[cl.pi]
			want, ok = fc.get(c, cl.pi, code)
		}
		if !ok {
			return
		}
		if shared && cl.ci != 0 {
			if cl.ci != liveSpec {
				histConfigSpecs[cl.ci].apply(&live)
				liveSpec = cl.ci
				c.Cover("history:live-config-modified-in-place")
			}
			var f lib.Func
			args := []jsonpath.Config{live}
			if cl.extra > 0 {
				// a second Config value after the live one: whatever Parse does with it, it must not end up in the live object
				args = append(args, histConfigs()[cl.extra]()...)
				c.Cover("history:two-config-values")
			}
			got, f = parseOutcomeWith(text, args, false)
			// "the returned function keeps the functions it was parsed with even if the Config is modified afterwards"
			if prevF != nil {
				if now := behaviour(prevF); now != prevBehaviour {
					c.Violation("function-follows-config "+strings.Join(hist, " ; "), "a function parsed earlier changed its behaviour after its Config object was modified in place and used for another Parse",
						map[string]interface{}{"history": hist, "function_of": prevCall, "behaviour_when_parsed": prevBehaviour, "behaviour_now": now})
					return
				}
			}
			prevF, prevBehaviour, prevCall = f, got, fmt.Sprintf("Parse(%q, live Config as cfg%d)", text, cl.ci)
		} else {
			got = parseOutcomeText(text, cl.ci, i == mutateAt)
		}
		if i == mutateAt && cl.ci != 0 {
			c.Cover("history:config-mutated")
		}
		if shared && cl.ci != 0 {
			if cl.extra > 0 {
				hist = append(hist, fmt.Sprintf("Parse(%q, live Config moved in place to cfg%d, fresh cfg%d)", text, cl.ci, cl.extra))
			} else {
				hist = append(hist, fmt.Sprintf("Parse(%q, live Config moved in place to cfg%d)", text, cl.ci))
			}
		} else {
			hist = append(hist, fmt.Sprintf("Parse(%q, cfg%d)", text, cl.ci))
		}
		failed := strings.HasPrefix(got, "ERR ")
		if failed {
			c.Cover("outcome:error")
		} else {
			c.Cover("outcome:function")
		}
		if prevFailed && !failed {
			c.Cover("history:fail-then-success")
			interesting = true
		}
		if prevCfg >= 0 && prevCfg != cl.ci {
			c.Cover("history:config-switch")
			interesting = true
		}
		prevFailed, prevCfg = failed, cl.ci
		residue := hooks.ParserResidue()
		if residue == "" {
			c.Cover("residue:clean")
		} else {
			// not a verdict by itself (harmless residue is legal): amplify - the whole probe set
			// right now, while the residue is there, against the fresh-process outcomes
			c.Tally("parser-residue:" + residue)
			for pi := range histPaths {
				for _, ci := range []int{0, 1} {
					w, ok := fc.get(c, pi, ci)
					if !ok {
						continue
					}
					if g := parseOutcome(pi, ci, false); g != w {
						c.Violation(fmt.Sprintf("residue-changes-outcome %q after %s", histPaths[pi], hist[len(hist)-1]),
							"after a call that left residue in the global parser, a later Parse behaves differently from the same call made first in a fresh process",
							map[string]interface{}{"history": hist, "parser_residue": residue, "next_call": fmt.Sprintf("Parse(%q, cfg%d)", histPaths[pi], ci), "in_history": g, "fresh_process": w})
						return
					}
					if hooks.ParserResidue() == "" {
						break
					}
				}
				if hooks.ParserResidue() == "" {
					break // a later call cleaned up: nothing left to amplify
				}
			}
		}
		if got != want {
			c.Violation("history-dependent "+strings.Join(hist, " ; "), fmt.Sprintf("call %d of the history behaves differently from the same call made first in a fresh process", i+1),
				map[string]interface{}{"history": hist, "call": hist[len(hist)-1], "config_mutated_after_parse": i == mutateAt, "in_history": got, "fresh_process": want, "parser_residue_before_next_call": residue})
			return
		}
	}
	if interesting {
		c.NonTrivial(strings.Join(hist, ";"))
		if c.WantSample() && c.K%53 == 0 {
			c.Sample(map[string]interface{}{"history": hist})
		}
	}
}
