package checks

import (
	"fmt"

	"verif/internal/gen"
	"verif/internal/harness"
	"verif/internal/lib"
	"verif/internal/spec"
)

// C20 — values that are not decoded JSON are treated as opaque leaves, never crash.
func init() {
	harness.Register(&harness.Check{
		ID:    "C20",
		Level: "exploration",
		Rule: fmt.Sprintf("case = one (path, document): systematic step-kind sequences and every comparison / logical shape, then random ASTs, on battery / filter / path-directed documents in "+
			"which a random subset of leaves is replaced by values of %d non-JSON Go kinds (structs incl. the empty struct and uncomparable ones, pointers, typed nil pointer/map/slice, typed "+
			"maps/slices/arrays, ints, float32, complex, funcs, chans, []byte, error, map[interface{}]interface{}, []map[string]interface{}, named string/float/map/slice types); also the "+
			"opaque value as the root; judged against SPEC run unchanged on the same document (it only recognises the two JSON container types, compares literals by JSON type and paths by "+
			"deep equality, names types via reflect): identical values (identity-aware for funcs, chans, pointers), errors from the candidate set incl. the Go type name in "+
			"ErrorTypeUnmatched, no panic; a dedicated part puts separately created, deep-equal values of ONE opaque kind into every operand position of every systematic comparison, so that path == path meets two values of the same dynamic type (statically comparable types with uncomparable content, distinct pointers to equal data); non-trivial = the document holds at least one opaque leaf and the path has a filter or >= 2 steps; distinct = distinct (path, document)", len(gen.OpaqueKinds)),
		Assumptions: []string{"user functions of the standard set treat unknown values as errors (twice, sum) or pass them through (ident, wrap, echo, first, count)"},
		Plan: func(tier string, seed int64) *harness.Plan {
			sys := newSysCases("quick")
			nPair := len(gen.OpaqueKinds) * len(sys.filters)
			return &harness.Plan{
				N:     sys.n() + len(gen.OpaqueKinds)*40 + nPair + size(tier, 150000, 12000000),
				Setup: func(c *harness.Ctx) { hooksOn() },
				Run: func(c *harness.Ctx, k int) {
					hooksAlternate(k) // key / container poison also hides a library that wrongly re-uses a recycled buffer's content: every second case runs without

					r := c.Rand()
					var d *diffCase
					var doc interface{}
					switch {
					case k < sys.n():
						d = sys.get(k)
						doc = lib.Decode(d.Doc, d.UseNum)
					case k < sys.n()+len(gen.OpaqueKinds)*40:
						// the opaque value itself as the root, and as the only member
						i := k - sys.n()
						d = sys.get((i * 7919) % sys.n())
						doc = gen.Opaque(i % len(gen.OpaqueKinds))
						if i%2 == 1 {
							doc = []interface{}{gen.Opaque(i % len(gen.OpaqueKinds)), map[string]interface{}{"a": gen.Opaque(i % len(gen.OpaqueKinds))}}
						}
						c.Cover("kind:" + gen.OpaqueKinds[i%len(gen.OpaqueKinds)])
						runC20(c, d, doc, true)
						return
					case k < sys.n()+len(gen.OpaqueKinds)*40+nPair:
						// every comparison / logical shape on a document whose operand positions ($.x, $.y[0], @.a, @[0], @)
						// all hold values of ONE opaque kind - separately created but equal ones, and one of another kind -
						// so that path == path meets two opaque values of the same dynamic type
						i := k - sys.n() - len(gen.OpaqueKinds)*40
						kind := i % len(gen.OpaqueKinds)
						d = &diffCase{P: sys.filters[i/len(gen.OpaqueKinds)]}
						d.Text, d.Texts = d.P.Render(spec.Canon)
						doc = map[string]interface{}{
							"x": gen.Opaque(kind), "y": []interface{}{gen.Opaque(kind)},
							"m1": map[string]interface{}{"a": gen.Opaque(kind), "b": 1.0},
							"m2": map[string]interface{}{"a": gen.Opaque(kind + 1)},
							"m3": []interface{}{gen.Opaque(kind)},
							"m4": gen.Opaque(kind),
							"m5": map[string]interface{}{"b": gen.Opaque(kind)},
						}
						c.Cover("pair-kind:" + gen.OpaqueKinds[kind])
						runC20(c, d, doc, true)
						return
					default:
						g := gen.New(r)
						d = randomCase(r, g, false)
						doc = lib.Decode(d.Doc, d.UseNum)
					}
					used := map[string]bool{}
					doc = gen.Opaquify(r, doc, 5, used)
					for kind := range used {
						c.Cover("kind:" + kind)
					}
					runC20(c, d, doc, len(used) > 0)
				},
				Finish: reportHooks,
				Required: func() []string {
					out := []string{"outcome:values", "outcome:type-unmatched-opaque", "outcome:error", "pair-kind:fresh-ptr-struct", "pair-kind:struct-iface-slice"}
					for _, k := range gen.OpaqueKinds {
						out = append(out, "kind:"+k)
					}
					return out
				}(),
			}
		},
	})
}

func runC20(c *harness.Ctx, d *diffCase, doc interface{}, opaque bool) {
	docJS := lib.JS(doc)
	key := d.Text + "\x00" + docJS
	// library and SPEC look at the very same document object (identity of funcs/chans/pointers matters);
	// C04 establishes separately that retrieval does not modify it
	o := lib.Retrieve(d.Text, doc, std.Config(false))
	ev := &spec.Evaluator{F: std.Spec()}
	var res []spec.Res
	var fails []spec.Fail
	var specPanic interface{}
	func() {
		defer func() { specPanic = recover() }()
		res, fails = ev.Eval(d.P, doc, doc)
	}()
	det := map[string]interface{}{"path": d.Text, "document": docJS, "library": o.String()}
	if specPanic != nil {
		c.Inconclusive(fmt.Sprintf("SPEC panicked on %s / %s: %v", d.Text, short(docJS, 200), specPanic))
		return
	}
	if opaque && (len(d.P.Steps) >= 2 || indexOf(d.Text, "?(") >= 0) {
		c.NonTrivial(key)
		if c.WantSample() && c.K%59 == 0 {
			c.Sample(map[string]interface{}{"path": d.Text, "document": short(docJS, 200), "library": short(o.String(), 160)})
		}
	}
	det["spec"] = lib.JS(specValues(res))
	switch {
	case o.Panic != nil:
		det["stack"] = o.Stack
		c.Violation("panic "+key, fmt.Sprintf("Retrieve panicked on a document with non-JSON leaves: %v", o.Panic), det)
	case o.Err != nil && len(res) > 0:
		c.Violation("err-vs-values "+key, "retrieval failed although treating non-JSON values as opaque leaves selects values", det)
	case o.Err == nil && len(res) == 0:
		det["spec_errors"] = specCandidates(fails, d.Texts)
		c.Violation("values-vs-err "+key, "retrieval succeeded although treating non-JSON values as opaque leaves selects nothing", det)
	case o.Err == nil:
		c.Cover("outcome:values")
		if !lib.SameList(o.Res, specValues(res)) {
			c.Violation("values "+key, "values differ from the opaque-leaf definition", det)
		}
	default:
		c.Cover("outcome:error")
		cands := specCandidates(fails, d.Texts)
		got := lib.ErrString(o.Err)
		if indexOf(got, "found=") >= 0 && indexOf(got, "found=[]interface") < 0 && indexOf(got, "found=map[string]interface") < 0 && indexOf(got, "found=null") < 0 &&
			indexOf(got, "found=float64") < 0 && indexOf(got, "found=string") < 0 && indexOf(got, "found=bool") < 0 && indexOf(got, "found=json.Number") < 0 {
			c.Cover("outcome:type-unmatched-opaque")
		}
		if !contains(cands, got) {
			det["spec_candidates"] = cands
			c.Violation("error "+key, "the error is not the one the opaque-leaf definition gives (navigation into an opaque value must fail with ErrorTypeUnmatched naming its Go type)", det)
		}
	}
}
