// Package checks holds one monitor per property (C01..C20).
package checks

import (
	"encoding/json"
	"fmt"
	"math/rand"
	"strings"

	"verif/internal/gen"
	"verif/internal/harness"
	"verif/internal/hooks"
	"verif/internal/lib"
	"verif/internal/p2a"
	"verif/internal/spec"
)

func size(tier string, quick, thorough int) int {
	if tier == "thorough" {
		return thorough
	}
	return quick
}

const (
	fnF = "twice" // the filter function used by the systematic enumerators
	fnG = "count" // the aggregate function used by the systematic enumerators
)

var std = lib.Std()

func init() { harness.InLibraryFor = lib.InLibraryFor }

// standard hook configuration of the sequential monitors: released buffers are
// poisoned, keys are scrambled before the library sorts them.
func hooksOn() {
	hooks.Configure(hooks.Options{PoisonContainers: true, PoisonKeys: true, ScrambleKeys: 4})
	hooks.ResetCounters()
}

// hooksAlternate is for the relational (oracle-free) monitors: poisoning released buffers turns a
// use-after-release into a failure, and a failure that hits BOTH sides of a relation keeps the relation
// intact; so every second case runs with the poison off (scrambling stays on) and the stale data is
// what the relation sees.
func hooksAlternate(k int) {
	if k%2 == 0 {
		hooks.Configure(hooks.Options{PoisonContainers: true, PoisonKeys: true, ScrambleKeys: 4})
	} else {
		hooks.Configure(hooks.Options{ScrambleKeys: 4})
	}
}

func reportHooks(c *harness.Ctx) {
	if !hooks.Available {
		c.Inconclusive("library built without the verif hooks (hook file did not compile): oracles ran without poison/scramble amplification")
		return
	}
	s := hooks.Stats()
	c.Hook("parse_calls", s.ParseCalls)
	c.Hook("eval_calls", s.EvalCalls)
	c.Hook("containers_poisoned", s.ContainersPoisoned)
	c.Hook("key_slices_poisoned", s.KeySlicesPoisoned)
	c.Hook("key_slices_scrambled", s.KeySlicesScrambled)
	c.Hook("trees_captured", s.TreesCaptured)
	if msg := hooks.Canary(); msg != "" {
		c.Violation("canary "+msg, "a package-level constant list of the library was modified: "+msg, nil)
	}
}

// specCandidates renders SPEC's acceptable errors as "Type|message".
func specCandidates(fails []spec.Fail, texts []string) []string {
	var cs []string
	for _, f := range spec.Select(fails) {
		t := "?"
		if f.Depth < len(texts) {
			t = texts[f.Depth]
		}
		switch f.Kind {
		case spec.FMember:
			cs = append(cs, fmt.Sprintf("jsonpath.ErrorMemberNotExist|member did not exist (path=%s)", t))
		case spec.FType:
			cs = append(cs, fmt.Sprintf("jsonpath.ErrorTypeUnmatched|type unmatched (expected=%s, found=%s, path=%s)", f.Expected, f.Found, t))
		case spec.FFunc:
			cs = append(cs, fmt.Sprintf("jsonpath.ErrorFunctionFailed|function failed (function=%s, error=%s)", t, f.Err))
		}
	}
	return cs
}

func contains(list []string, s string) bool {
	for _, x := range list {
		if x == s {
			return true
		}
	}
	return false
}

func specValues(res []spec.Res) []interface{} {
	out := make([]interface{}, len(res))
	for i := range res {
		out[i] = res[i].V
	}
	return out
}

// diffCase is one differential observation: the library and SPEC on the same
// (path, document, decode mode).
type diffCase struct {
	P      *spec.Path
	Text   string
	Texts  []string
	Doc    string
	UseNum bool
	Share  bool // evaluate on the maximally shared form of the document (equal sub-containers are ONE map / slice)
}

func (d *diffCase) key() string {
	if d.Share {
		return fmt.Sprintf("%s\x00%s\x00%v shared", d.Text, d.Doc, d.UseNum)
	}
	return fmt.Sprintf("%s\x00%s\x00%v", d.Text, d.Doc, d.UseNum)
}

func (d *diffCase) detail(extra map[string]interface{}) map[string]interface{} {
	m := map[string]interface{}{"path": d.Text, "document": d.Doc, "use_number": d.UseNum}
	if d.Share {
		m["document_form"] = "equal sub-containers of the document are one shared map / slice (lib.HashCons)"
	}
	for k, v := range extra {
		m[k] = v
	}
	return m
}

type diffObs struct {
	Lib   lib.Outcome
	Spec  []spec.Res
	Fails []spec.Fail
	Cands []string
	After string // document after the library call
}

func (d *diffCase) observe(fs lib.FuncSet) diffObs {
	src := lib.Decode(d.Doc, d.UseNum)
	if d.Share {
		src, _ = lib.HashCons(src)
	}
	var o diffObs
	o.Lib = lib.Retrieve(d.Text, src, fs.Config(false))
	o.After = lib.JS(src)
	src2 := lib.Decode(d.Doc, d.UseNum)
	ev := &spec.Evaluator{F: fs.Spec(), MemoRoot: true}
	o.Spec, o.Fails = ev.Eval(d.P, src2, src2)
	if len(o.Spec) == 0 {
		o.Cands = specCandidates(o.Fails, d.Texts)
	}
	return o
}

// nontrivial: at least two steps or a filter, and the outcome is not a failure of the very first step.
func (d *diffCase) nontrivial(o *diffObs) bool {
	hasFilter := false
	for i := range d.P.Steps {
		hasFilter = hasFilter || d.P.Steps[i].Kind == spec.KFilter
	}
	if len(d.P.Steps) < 2 && !hasFilter {
		return false
	}
	if len(o.Spec) > 0 {
		return true
	}
	for _, f := range spec.Select(o.Fails) {
		if f.Depth > 0 {
			return true
		}
	}
	return false
}

// coverPath records the step-kind adjacency and comparator cells of a path.
func coverPath(c *harness.Ctx, p *spec.Path) {
	kinds := gen.StepKinds(p)
	prev := "root"
	for _, k := range kinds {
		c.Cover("adj:" + prev + ">" + k)
		prev = k
	}
	for _, f := range p.Funcs {
		k := "filterfn"
		if _, ok := std.Aggr[f]; ok {
			k = "aggrfn"
		}
		c.Cover("adj:" + prev + ">" + k)
		prev = k
	}
	p.WalkQueries(func(q *spec.Query) {
		switch q.Op {
		case spec.QCmp:
			c.Cover("cmp:" + q.Cmp + ":" + gen.OperandKind(q.LO) + ":" + gen.OperandKind(q.RO))
		case spec.QRegex:
			c.Cover("cmp:=~:" + gen.OperandKind(spec.Operand{P: q.P}))
		case spec.QAnd:
			c.Cover("logic:&&")
		case spec.QOr:
			c.Cover("logic:||")
		case spec.QNot:
			c.Cover("logic:!")
		case spec.QExist:
			c.Cover("logic:exist:" + string(q.P.Root))
		}
	})
}

func filterPath(q *spec.Query) *spec.Path {
	return &spec.Path{Root: '$', Steps: []spec.Step{{Kind: spec.KFilter, Q: q}}}
}

// sysCases is the systematic part shared by C01 / C15 / C04: step-kind
// sequences x battery, comparisons and logical shapes x filter documents.
type sysCases struct {
	paths   []*spec.Path
	filters []*spec.Path
	nA, nB  int
}

func newSysCases(tier string) *sysCases {
	s := &sysCases{}
	if tier == "thorough" {
		s.paths = gen.SysPaths(3, 2, fnF, fnG)
	} else {
		s.paths = gen.SysPaths(2, 2, fnF, fnG)
	}
	for _, q := range gen.SysComparisons(fnF, fnG, true) {
		s.filters = append(s.filters, filterPath(q))
	}
	for _, q := range gen.SysLogical() {
		s.filters = append(s.filters, filterPath(q))
	}
	s.nA = len(s.paths) * len(gen.Battery)
	s.nB = len(s.filters) * len(gen.FilterDocs) * 2
	return s
}

func (s *sysCases) n() int { return s.nA + s.nB }

func (s *sysCases) get(k int) *diffCase {
	d := &diffCase{}
	if k < s.nA {
		d.P = s.paths[k/len(gen.Battery)]
		d.Doc = gen.Battery[k%len(gen.Battery)]
		d.UseNum = (k/len(gen.Battery))%2 == 1
	} else {
		k -= s.nA
		d.UseNum = k%2 == 1
		k /= 2
		d.P = s.filters[k/len(gen.FilterDocs)]
		d.Doc = gen.FilterDocs[k%len(gen.FilterDocs)]
	}
	d.Text, d.Texts = d.P.Render(spec.Canon)
	return d
}

// randomCase draws a random (path, document) pair; documents are path-directed
// two times out of three.
// RichKeys: names beyond [a-c] - non-ASCII, astral, spaces, quotes, backslash, dot, digits.
var RichKeys = []string{"a", "b", "é", "名前", "a b", "x'y", "x\"y", "\\", "a.b", "😀", "-", "0"}

func randomCase(r *rand.Rand, g *gen.Gen, spelled bool) *diffCase {
	if len(g.Keys) == 3 && r.Intn(4) == 0 {
		g.Keys = RichKeys
	}
	d := &diffCase{}
	var doc interface{}
	if r.Intn(48) == 0 {
		d.P, doc = g.DeepCase() // far beyond the usual 5 levels / 5 steps
	} else {
		d.P = g.Path(5, 2)
		if r.Intn(3) == 0 {
			doc = g.Doc(5)
		} else {
			doc = g.DocFor(d.P)
		}
	}
	d.Doc = lib.JS(doc)
	d.UseNum = r.Intn(2) == 0
	d.Share = r.Intn(8) == 0
	if spelled {
		d.Text, d.Texts = d.P.Render(gen.RandomSpelling(r))
	} else {
		d.Text, d.Texts = d.P.Render(spec.Canon)
	}
	return d
}

func short(s string, n int) string {
	if len(s) > n {
		return s[:n] + "…"
	}
	return s
}

func joinLines(ss []string) string { return strings.Join(ss, " || ") }

// stringCase turns a hostile-generator string that the library accepts into a differential
// case: the AST is recovered from the grammar's own parse tree (p2a), so SPEC can judge paths
// that no AST generator produced (the suite's paths, their mutations, token soup that parses).
// ok=false: the string does not parse / is not derivable (C02 / C17 territory).
func stringCase(c *harness.Ctx, r *rand.Rand, g *gen.Gen, src *strSource) (*diffCase, bool) {
	s, class := src.sg.Next(r, g)
	po := lib.Parse(s, std.Config(false))
	if po.Panic != nil || po.Err != nil || po.F == nil {
		c.Tally("string-unparsable")
		return nil, false
	}
	res, derivable, err := p2a.Convert(src.sg.Grammar, s)
	if !derivable || err != nil {
		c.Tally("string-accepted-but-not-converted") // accept/reject disagreements are C17's verdict
		return nil, false
	}
	c.Cover("string-class:" + class)
	d := &diffCase{P: res.Path, Text: s, Texts: res.Texts, UseNum: r.Intn(2) == 0}
	switch r.Intn(4) {
	case 0:
		d.Doc = gen.Battery[r.Intn(len(gen.Battery))]
	case 1:
		d.Doc = lib.JS(g.Doc(4))
	default:
		d.Doc = lib.JS(g.DocFor(d.P))
	}
	if class == "suite" || class == "suite-mutated" {
		// half of the time the document the suite itself uses for the nearest path
		if r.Intn(2) == 0 && len(src.sg.Suite) > 0 {
			sc := src.sg.Suite[r.Intn(len(src.sg.Suite))]
			for _, x := range src.sg.Suite {
				if x.Path == s {
					sc = x
					break
				}
			}
			var probe interface{}
			if json.Unmarshal([]byte(sc.JSON), &probe) == nil {
				d.Doc = sc.JSON
			}
		}
	}
	return d, true
}
