package checks

import (
	"encoding/json"
	"fmt"
	"reflect"

	"verif/internal/gen"
	"verif/internal/lib"
	"verif/internal/p2a"
	"verif/internal/pegi"
	"verif/internal/spec"
)

// SuiteSelfTestMain is `vcheck spec-selftest`: SPEC (and the parse-tree-to-AST converter) against the
// expectations the maintainers pinned in the library's own test file. It validates the ORACLE, not the
// library: every disagreement printed here is a place where SPEC reads the semantics differently from
// the suite. Exit status 0 iff there is none.
func SuiteSelfTestMain() int {
	g, err := gen.LoadGrammar()
	if err != nil {
		fmt.Println("grammar:", err)
		return 2
	}
	ran, skipped, bad, lines := suiteSelfTest(g)
	for _, l := range lines {
		fmt.Println(l)
	}
	fmt.Printf("spec-selftest: %d run through SPEC, %d skipped (custom functions / accessor mode / non-JSON input), %d disagreements\n", ran, skipped, bad)
	if bad > 0 {
		return 1
	}
	return 0
}

// suiteSelfTest runs SPEC on the suite's pinned cases; returns counts and one line per disagreement.
func suiteSelfTest(g *pegi.Grammar) (ran, skipped, bad int, lines []string) {
	cases := gen.HarvestSuiteExpectations()
	printf := func(format string, a ...interface{}) { lines = append(lines, fmt.Sprintf(format, a...)) }
	for _, sc := range cases {
		if sc.Custom {
			skipped++
			continue
		}
		var doc interface{}
		if json.Unmarshal([]byte(sc.JSON), &doc) != nil {
			skipped++
			continue
		}
		res, derivable, err := p2a.Convert(g, sc.Path)
		if !derivable || err != nil {
			printf("NOT-CONVERTED %q derivable=%v err=%v", sc.Path, derivable, err)
			bad++
			continue
		}
		ev := &spec.Evaluator{F: spec.Funcs{}, MemoRoot: true}
		out, fails := ev.Eval(res.Path, doc, doc)
		ran++
		if sc.ExpectedJSON != "" {
			var want []interface{}
			if json.Unmarshal([]byte(sc.ExpectedJSON), &want) != nil {
				continue
			}
			if !reflect.DeepEqual(specValues(out), want) && !(len(out) == 0 && len(want) == 0) {
				printf("VALUES %q on %s: spec %s, suite expects %s", sc.Path, sc.JSON, lib.JS(specValues(out)), sc.ExpectedJSON)
				bad++
			}
			continue
		}
		if len(out) > 0 {
			printf("SPEC-SELECTS %q on %s: spec %s, suite expects an error %v", sc.Path, sc.JSON, lib.JS(specValues(out)), sc.ErrArgs)
			bad++
			continue
		}
		cands := specCandidates(fails, res.Texts)
		var want string
		if sc.ErrKind == "member" {
			want = fmt.Sprintf("jsonpath.ErrorMemberNotExist|member did not exist (path=%s)", sc.ErrArgs[0])
		} else {
			want = fmt.Sprintf("jsonpath.ErrorTypeUnmatched|type unmatched (expected=%s, found=%s, path=%s)", sc.ErrArgs[1], sc.ErrArgs[2], sc.ErrArgs[0])
		}
		if !contains(cands, want) {
			printf("ERROR %q on %s: spec candidates %v, suite expects %s", sc.Path, sc.JSON, cands, want)
			bad++
		}
	}
	return
}
