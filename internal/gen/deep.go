package gen

import "verif/internal/spec"

// DeepCase builds a document that is a chain of 17..131 nested containers (with small side
// branches) and a path that walks it: exact steps, wildcards, unions, slices, multi-names and
// recursive descents that skip levels. Depth- and length-dependent fast paths (fixed-size stacks,
// step tables) end somewhere; ordinary generated cases stay below 6 levels and 6 steps.
func (g *Gen) DeepCase() (*spec.Path, interface{}) {
	var depth int
	switch x := g.R.Intn(16); {
	case x < 9:
		depth = 17 + g.R.Intn(4)
	case x < 13:
		depth = 33 + g.R.Intn(4)
	case x < 15:
		depth = 65 + g.R.Intn(4)
	default:
		depth = 129 + g.R.Intn(3)
	}
	type level struct {
		key   string
		index int
		size  int
		array bool
	}
	levels := make([]level, depth)
	var inner interface{} = g.Doc(1)
	for i := depth - 1; i >= 0; i-- {
		lv := level{array: g.R.Intn(2) == 0}
		if lv.array {
			lv.size = 1 + g.R.Intn(3)
			lv.index = g.R.Intn(lv.size)
			l := make([]interface{}, lv.size)
			for j := range l {
				l[j] = g.Leaf()
			}
			l[lv.index] = inner
			inner = l
		} else {
			lv.key = g.key()
			m := map[string]interface{}{}
			if g.R.Intn(3) == 0 {
				m[g.key()] = g.Leaf()
			}
			m[lv.key] = inner
			inner = m
		}
		levels[i] = lv
	}
	p := &spec.Path{Root: '$'}
	short := g.R.Intn(2) == 0 // short: recursive descents skip most levels
	recs := 2                 // k descents over d levels select O(d^k) branches: keep k small
	dups := 5                 // selectors that select the walked child twice double the result: at most 2^5
	mult := 1                 // estimated number of results (each one is a deep sub-document that the monitors render): kept <= 2048
	for i := 0; i < depth; {
		lv := levels[i]
		if i > 0 && recs > 0 && mult*(depth-i) <= 2048 && (short && g.R.Intn(3) != 0 || !short && g.R.Intn(12) == 0) {
			recs--
			mult *= depth - i
			// `..` then an exact step of some deeper level
			p.Steps = append(p.Steps, spec.Step{Kind: spec.KRec})
			i += g.R.Intn(depth - i)
			lv = levels[i]
		}
		var st spec.Step
		switch x := g.R.Intn(12); {
		case x < 7 || short:
			if lv.array {
				n := int64(lv.index)
				if g.R.Intn(3) == 0 {
					n -= int64(lv.size)
				}
				st = spec.Step{Kind: spec.KUnion, Subs: []spec.Sub{{Kind: spec.SIndex, N: n}}}
			} else {
				st = spec.Step{Kind: spec.KName, Key: lv.key, Bracket: g.R.Intn(3) == 0}
			}
		case x < 9:
			st = spec.Step{Kind: spec.KWild, Bracket: g.R.Intn(2) == 0}
		case x == 9 && lv.array:
			st = spec.Step{Kind: spec.KUnion, Subs: []spec.Sub{{Kind: spec.SSlice, Start: ip(int64(lv.index))}}}
		case x == 10 && lv.array && dups > 0 && mult <= 1024:
			dups--
			mult *= 2
			st = spec.Step{Kind: spec.KUnion, Subs: []spec.Sub{{Kind: spec.SIndex, N: int64(lv.index)}, {Kind: spec.SWild}}}
		case !lv.array && dups > 0 && mult <= 1024:
			dups--
			mult *= 2
			st = spec.Step{Kind: spec.KMulti, Items: []spec.MItem{{Key: lv.key}, {Key: g.key()}}}
		default:
			st = spec.Step{Kind: spec.KWild}
		}
		p.Steps = append(p.Steps, st)
		i++
		if short && g.R.Intn(4) == 0 {
			break
		}
	}
	if g.R.Intn(8) == 0 && len(g.Aggrs) > 0 {
		p.Funcs = []string{g.Aggrs[g.R.Intn(len(g.Aggrs))]}
	}
	return p, inner
}
