package gen

import (
	"verif/internal/spec"
)

// Battery is a fixed set of hand-shaped documents (JSON text).
var Battery = []string{
	`{}`, `[]`, `null`, `1`, `"a"`, `true`,
	`{"a":1,"b":2,"c":3}`,
	`{"a":{"a":1,"b":"a","c":[1,2]},"b":{"a":2,"c":{"a":1}},"c":[{"a":1},{"a":2,"b":1},[0,1,2]]}`,
	`[{"a":1,"b":2},{"a":2,"b":1},{"b":1},{"a":"1"},{"a":null},{"a":true},[1,2],"a",1,null]`,
	`[[0,1,2],[3,4],[5],[]]`,
	`{"a":[[1,2],[3]],"b":[{"a":[0,1]},{"a":[2]}],"c":"ab"}`,
	`[0,1,2,3,4,5]`,
	`{"a":[{"a":[{"a":[{"a":1}]}]}]}`,
	`{"a":{"b":{"c":{"a":{"b":{"c":1}}}}}}`,
	`{"a":"a","b":"b","c":""}`,
	`[{"a":{"b":1}},{"a":{"b":2}},{"a":{"c":1}},{"a":[1]},{"a":{}}]`,
	`{"a":[],"b":{},"c":null}`,
	`[1.5,-1,0,1,2,"1","a","",true,false,null]`,
	`{"a":1,"b":[1,2,{"c":3,"a":1}],"c":{"a":{"a":1},"b":[{"a":1}]}}`,
	`[[{"a":1}],[{"a":2},{"b":1}],{"a":[1,2]},{"c":{"a":3}}]`,
	`{"b":{"c":[{"a":0},{"a":1},{"a":2}]},"a":1}`,
	`[{"a":[1,2,3],"b":"ab"},{"a":"ab","b":[1]},{"a":1.5,"b":1.5}]`,
	`{"a":{"a":{"a":{"a":null}}},"b":[[[[1]]]]}`,
	`[{"a":1,"b":1},{"a":1,"b":2},{"a":2,"b":2},{"a":"a","b":"a"},{"a":[1],"b":[1]},{"a":{"c":1},"b":{"c":1}}]`,
	// containers beyond the small sizes: 20 elements, 12 members (table / small-size fast paths end somewhere)
	`[0,1,2,3,4,5,6,7,8,9,10,11,12,13,14,15,{"a":16,"b":[0,1,2,3,4,5,6,7,8,9,10,11,12,13,14,15,16,17]},17,{"a":18},19]`,
	`{"k05":5,"a":{"k11":1,"k10":2,"k09":3,"k08":4,"k07":5,"k06":6,"k05":7,"k04":8,"k03":9,"k02":10,"a":11,"b":12},"k03":3,"k09":9,"b":2,"k01":1,"k07":7,"c":[1],"k02":2,"k08":8,"k04":4,"k06":6}`,
}

// DocFor builds a document on which the path is likely (but not certain) to
// select something: every step plants structure that it selects with
// probability ~0.7, then one node may be perturbed so that hit, miss and
// mistype all stay frequent.
func (g *Gen) DocFor(p *spec.Path) interface{} {
	g.budget = 300 // planted structure is bounded whatever the path looks like (long paths would otherwise grow it exponentially)
	g.long, g.longCap = 0, 5000
	if g.R.Intn(16) == 0 {
		g.long = 1 + g.R.Intn(2) // up to two containers of this document are padded beyond the small sizes
		subPaths := 0
		p.Walk(func(*spec.Path) { subPaths++ })
		if subPaths > 2 {
			g.longCap = 36 // several operand paths are evaluated per member (and `$` operands walk the whole document each time): keep the product small
		}
	}
	d := g.build(p.Steps, 0, nil)
	// $-rooted operands inside filters look at the root: give it some members
	if m, ok := d.(map[string]interface{}); ok && g.R.Intn(2) == 0 {
		for i := 0; i < g.R.Intn(3); i++ {
			k := g.key()
			if _, has := m[k]; !has {
				m[k] = g.Doc(2)
			}
		}
	}
	if g.R.Intn(3) == 0 {
		d = g.perturb(d, 3)
	}
	return d
}

func (g *Gen) hit() bool { return g.R.Intn(10) < 7 }

// longSize draws a container size beyond the small ones (size-dependent fast paths end at some power of two).
func (g *Gen) longSize() int {
	switch x := g.R.Intn(16); {
	case x < 10:
		return 17 + g.R.Intn(8)
	case x < 13:
		return 33 + g.R.Intn(4)
	case x < 15:
		return 65 + g.R.Intn(4)
	}
	return []int{257, 1025, 4097}[g.R.Intn(3)] + g.R.Intn(4)
}

// padList pads l (in a document marked long) with cheap values, the planted elements spread over the result.
func (g *Gen) padList(l []interface{}) []interface{} {
	if g.long <= 0 || g.R.Intn(2) == 0 {
		return l
	}
	g.long--
	n := min(g.longSize(), g.longCap)
	out := make([]interface{}, 0, n)
	for len(out)+len(l) < n {
		if len(l) > 0 && g.R.Intn(4) == 0 {
			out = append(out, l[0])
			l = l[1:]
			continue
		}
		if g.R.Intn(3) == 0 {
			out = append(out, g.Doc(1))
		} else {
			out = append(out, float64(len(out)))
		}
	}
	return append(out, l...)
}

// padObject does the same for objects (keys k0000..).
func (g *Gen) padObject(m map[string]interface{}) map[string]interface{} {
	if g.long <= 0 || g.R.Intn(2) == 0 {
		return m
	}
	g.long--
	n := min(g.longSize(), g.longCap, 1100)
	for i := 0; len(m) < n; i++ {
		k := "k" + string(rune('0'+i/1000%10)) + string(rune('0'+i/100%10)) + string(rune('0'+i/10%10)) + string(rune('0'+i%10))
		if g.R.Intn(3) == 0 {
			m[k] = g.Doc(1)
		} else {
			m[k] = float64(i)
		}
	}
	return m
}

func (g *Gen) build(steps []spec.Step, i int, q *spec.Query) interface{} {
	g.budget--
	if g.budget < 0 {
		return g.Leaf()
	}
	if i >= len(steps) {
		return g.Doc(2)
	}
	if !g.hit() {
		return g.Doc(3)
	}
	s := &steps[i]
	switch s.Kind {
	case spec.KName:
		m := g.objectWith(g.R.Intn(3))
		m[s.Key] = g.build(steps, i+1, nil)
		return m
	case spec.KWild:
		n := 1 + g.R.Intn(3)
		if g.R.Intn(2) == 0 {
			l := make([]interface{}, n)
			for j := range l {
				l[j] = g.build(steps, i+1, nil)
			}
			return g.padList(l)
		}
		m := map[string]interface{}{}
		for j := 0; j < n; j++ {
			m[g.key()] = g.build(steps, i+1, nil)
		}
		return g.padObject(m)
	case spec.KMulti:
		allWild := true
		for _, it := range s.Items {
			allWild = allWild && it.Wild
		}
		if allWild && g.R.Intn(2) == 0 {
			n := 1 + g.R.Intn(3)
			l := make([]interface{}, n)
			for j := range l {
				l[j] = g.build(steps, i+1, nil)
			}
			return g.padList(l)
		}
		m := g.objectWith(g.R.Intn(2))
		for _, it := range s.Items {
			if !it.Wild && g.hit() {
				m[it.Key] = g.build(steps, i+1, nil)
			}
		}
		return g.padObject(m)
	case spec.KUnion:
		need := int64(1)
		for _, su := range s.Subs {
			for _, v := range []*int64{&su.N, su.Start, su.End} {
				if v == nil {
					continue
				}
				x := *v
				if x < 0 {
					x = -x
				} else {
					x++
				}
				if x > need && x < 8 {
					need = x
				}
			}
		}
		n := int(need) + g.R.Intn(2)
		l := make([]interface{}, n)
		for j := range l {
			l[j] = g.build(steps, i+1, nil)
		}
		return g.padList(l)
	case spec.KFilter:
		n := 1 + g.R.Intn(4)
		members := make([]interface{}, n)
		for j := range members {
			m := g.build(steps, i+1, nil)
			if g.hit() {
				m = g.satisfy(s.Q, m)
			}
			members[j] = m
		}
		if g.R.Intn(2) == 0 {
			return g.padList(members)
		}
		obj := map[string]interface{}{}
		for _, m := range members {
			obj[g.key()] = m
		}
		return g.padObject(obj)
	case spec.KRec:
		inner := g.build(steps, i+1, nil)
		for d := g.R.Intn(3); d > 0; d-- {
			if g.R.Intn(2) == 0 {
				m := g.objectWith(g.R.Intn(2))
				m[g.key()] = inner
				inner = m
			} else {
				l := []interface{}{}
				for j := g.R.Intn(2); j > 0; j-- {
					l = append(l, g.Doc(1))
				}
				l = append(l, inner)
				inner = l
			}
		}
		return inner
	}
	return g.Doc(2)
}

func (g *Gen) objectWith(extra int) map[string]interface{} {
	m := map[string]interface{}{}
	for j := 0; j < extra; j++ {
		m[g.key()] = g.Doc(1)
	}
	return m
}

// satisfy tries to make one atom of q hold for member m (best effort).
func (g *Gen) satisfy(q *spec.Query, m interface{}) interface{} {
	switch q.Op {
	case spec.QAnd:
		return g.satisfy(q.R, g.satisfy(q.L, m))
	case spec.QOr:
		if g.R.Intn(2) == 0 {
			return g.satisfy(q.L, m)
		}
		return g.satisfy(q.R, m)
	case spec.QParen:
		return g.satisfy(q.L, m)
	case spec.QExist:
		if q.P.Root == '@' {
			return g.plant(m, q.P.Steps, g.Doc(1))
		}
	case spec.QRegex:
		if q.P.Root == '@' && len(q.P.Funcs) == 0 {
			return g.plant(m, q.P.Steps, strPool[g.R.Intn(len(strPool))])
		}
	case spec.QCmp:
		at, other := q.LO, q.RO
		if at.IsLit || at.P.Root != '@' {
			at, other = q.RO, q.LO
		}
		if at.IsLit || at.P.Root != '@' || len(at.P.Funcs) > 0 {
			return m
		}
		var v interface{}
		if other.IsLit {
			v = other.Lit
			if f, ok := v.(float64); ok && q.Cmp != "==" && q.Cmp != "!=" {
				v = f + float64(g.R.Intn(3)-1)
			}
		} else {
			v = g.Leaf()
		}
		return g.plant(m, at.P.Steps, v)
	}
	return m
}

// plant sets v at the location the single-valued steps describe inside m,
// creating containers as needed; gives up (returns m) on other step kinds.
func (g *Gen) plant(m interface{}, steps []spec.Step, v interface{}) interface{} {
	if len(steps) == 0 {
		return v
	}
	s := &steps[0]
	switch s.Kind {
	case spec.KName:
		obj, ok := m.(map[string]interface{})
		if !ok {
			obj = map[string]interface{}{}
		}
		obj[s.Key] = g.plant(obj[s.Key], steps[1:], v)
		return obj
	case spec.KUnion:
		if len(s.Subs) != 1 || s.Subs[0].Kind != spec.SIndex {
			return m
		}
		n := s.Subs[0].N
		if n < -4 || n > 4 {
			return m
		}
		l, ok := m.([]interface{})
		need := int(n) + 1
		if n < 0 {
			need = int(-n)
		}
		if !ok {
			l = nil
		}
		for len(l) < need {
			l = append(l, g.Leaf())
		}
		idx := int(n)
		if n < 0 {
			idx = len(l) + int(n)
		}
		l[idx] = g.plant(l[idx], steps[1:], v)
		return l
	}
	return m
}

// perturb replaces or deletes one node somewhere in d.
func (g *Gen) perturb(d interface{}, depth int) interface{} {
	if depth == 0 || g.R.Intn(3) == 0 {
		return g.Doc(1)
	}
	switch t := d.(type) {
	case map[string]interface{}:
		if len(t) == 0 {
			return d
		}
		ks := make([]string, 0, len(t))
		for _, k := range g.Keys {
			if _, ok := t[k]; ok {
				ks = append(ks, k)
			}
		}
		if len(ks) == 0 {
			return d
		}
		k := ks[g.R.Intn(len(ks))]
		if g.R.Intn(4) == 0 {
			delete(t, k)
		} else {
			t[k] = g.perturb(t[k], depth-1)
		}
	case []interface{}:
		if len(t) == 0 {
			return d
		}
		j := g.R.Intn(len(t))
		if g.R.Intn(4) == 0 {
			return append(t[:j:j], t[j+1:]...)
		}
		t[j] = g.perturb(t[j], depth-1)
	default:
		return g.Doc(1)
	}
	return d
}
