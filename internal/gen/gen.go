// Package gen holds the case generators: random path ASTs, random and
// path-directed documents, bounded-exhaustive enumerators, hostile strings,
// Unicode keys and documents with non-JSON leaves. Everything is a
// deterministic function of the *rand.Rand it is given.
package gen

import (
	"fmt"
	"math"
	"math/rand"
	"strconv"

	"verif/internal/spec"
)

type Gen struct {
	R     *rand.Rand
	Keys  []string
	Funcs []string // names of filter functions
	Aggrs []string // names of aggregate functions
	// BigInts makes index / slice literals occasionally huge (around 2^31, 2^63).
	BigInts bool
	// FuncP is the probability (in 1/16) that a top-level path gets trailing functions.
	FuncP   int
	budget  int
	longCap int
	long    int // containers of the current document still to be padded beyond the small sizes
}

func New(r *rand.Rand) *Gen {
	return &Gen{R: r, Keys: []string{"a", "b", "c"}, Funcs: []string{"twice", "ident", "wrap", "nostr", "pick", "sub"},
		Aggrs: []string{"count", "first", "echo", "sum", "keep"}, FuncP: 4}
}

func (g *Gen) key() string { return g.Keys[g.R.Intn(len(g.Keys))] }

var numPool = []float64{0, 1, 2, 1.5, -1}
var strPool = []string{"a", "b", "", "1", "ab", "ba", "aab", "a.b", "A", "1.5", "21.50", "a\nb"}

func (g *Gen) Leaf() interface{} {
	switch g.R.Intn(4) {
	case 0:
		return numPool[g.R.Intn(len(numPool))]
	case 1:
		return strPool[g.R.Intn(len(strPool))]
	case 2:
		return g.R.Intn(2) == 0
	}
	return nil
}

// Doc generates a random JSON document of at most the given nesting depth.
func (g *Gen) Doc(depth int) interface{} {
	r := g.R.Intn(10)
	if depth <= 0 && r >= 4 {
		r = g.R.Intn(4)
	}
	switch {
	case r < 4:
		return g.Leaf()
	case r <= 6:
		n := g.R.Intn(5)
		m := map[string]interface{}{}
		for i := 0; i < n; i++ {
			m[g.key()] = g.Doc(depth - 1)
		}
		return m
	default:
		n := g.R.Intn(5)
		l := make([]interface{}, n)
		for i := range l {
			l[i] = g.Doc(depth - 1)
		}
		return l
	}
}

func ip(v int64) *int64 { return &v }

var bigInts = []int64{math.MaxInt64, math.MinInt64, math.MaxInt64 - 1, math.MinInt64 + 1, 1 << 31, -(1 << 31), 1<<31 - 1, -(1 << 31) - 1, 1 << 32, 1 << 62, -(1 << 62)}

func (g *Gen) smallInt() int64 {
	if g.BigInts && g.R.Intn(6) == 0 {
		return bigInts[g.R.Intn(len(bigInts))]
	}
	return int64(g.R.Intn(9) - 4)
}

func (g *Gen) sub() spec.Sub {
	switch g.R.Intn(6) {
	case 0, 1, 2:
		return spec.Sub{Kind: spec.SIndex, N: g.smallInt()}
	case 3:
		return spec.Sub{Kind: spec.SWild}
	}
	s := spec.Sub{Kind: spec.SSlice}
	if g.R.Intn(3) > 0 {
		s.Start = ip(g.smallInt())
	}
	if g.R.Intn(3) > 0 {
		s.End = ip(g.smallInt())
	}
	if g.R.Intn(2) > 0 {
		s.Step = ip(g.smallInt())
	}
	return s
}

// NormalizeUnion maps subscript lists the grammar parses as something else to
// that something: `[*]` is the wildcard, an all-`*` list is a multi-name selector.
func NormalizeUnion(subs []spec.Sub) spec.Step {
	allw := true
	for _, s := range subs {
		allw = allw && s.Kind == spec.SWild
	}
	if allw {
		if len(subs) == 1 {
			return spec.Step{Kind: spec.KWild, Bracket: true}
		}
		items := make([]spec.MItem, len(subs))
		for i := range items {
			items[i] = spec.MItem{Wild: true}
		}
		return spec.Step{Kind: spec.KMulti, Items: items}
	}
	return spec.Step{Kind: spec.KUnion, Subs: subs}
}

// step generates a non-recursive step. single restricts to single-valued steps.
func (g *Gen) step(single bool, fdepth int) spec.Step {
	if single {
		if g.R.Intn(3) == 0 {
			return spec.Step{Kind: spec.KUnion, Subs: []spec.Sub{{Kind: spec.SIndex, N: g.smallInt()}}}
		}
		return spec.Step{Kind: spec.KName, Key: g.key(), Bracket: g.R.Intn(3) == 0}
	}
	switch g.R.Intn(10) {
	case 0, 1:
		return spec.Step{Kind: spec.KName, Key: g.key(), Bracket: g.R.Intn(3) == 0}
	case 2:
		return spec.Step{Kind: spec.KWild, Bracket: g.R.Intn(2) == 0}
	case 3:
		n := 2 + g.R.Intn(2)
		items := make([]spec.MItem, n)
		wildP := g.R.Intn(4) // 0: all wild
		for i := range items {
			if wildP == 0 || g.R.Intn(5) == 0 {
				items[i] = spec.MItem{Wild: true}
			} else {
				items[i] = spec.MItem{Key: g.key()}
			}
		}
		return spec.Step{Kind: spec.KMulti, Items: items}
	case 4, 5, 6:
		n := 1 + g.R.Intn(3)
		subs := make([]spec.Sub, n)
		for i := range subs {
			subs[i] = g.sub()
		}
		return NormalizeUnion(subs)
	default:
		if fdepth <= 0 {
			return spec.Step{Kind: spec.KName, Key: g.key()}
		}
		return spec.Step{Kind: spec.KFilter, Q: g.Query(2, fdepth-1)}
	}
}

func (g *Gen) steps(n int, single bool, fdepth int) []spec.Step {
	var out []spec.Step
	for len(out) < n {
		if !single && g.R.Intn(6) == 0 {
			out = append(out, spec.Step{Kind: spec.KRec})
			out = append(out, g.step(false, fdepth))
			continue
		}
		out = append(out, g.step(single, fdepth))
	}
	return out
}

func (g *Gen) funcs(max int) []string {
	all := append(append([]string{}, g.Funcs...), g.Aggrs...)
	if len(all) == 0 {
		return nil
	}
	n := 1 + g.R.Intn(max)
	out := make([]string, n)
	for i := range out {
		out[i] = all[g.R.Intn(len(all))]
	}
	return out
}

// Path generates a top-level path: up to maxSteps steps, filters nested up to fdepth levels.
func (g *Gen) Path(maxSteps, fdepth int) *spec.Path {
	p := &spec.Path{Root: '$'}
	p.Steps = g.steps(g.R.Intn(maxSteps+1), false, fdepth)
	if g.R.Intn(16) < g.FuncP {
		p.Funcs = g.funcs(3)
	}
	if g.R.Intn(12) == 0 && len(p.Steps) > 0 && p.Steps[0].Kind != spec.KRec {
		p.Root = 0
	}
	return p
}

func (g *Gen) isAggr(name string) bool {
	for _, a := range g.Aggrs {
		if a == name {
			return true
		}
	}
	return false
}

// operandPath generates a filter operand. single: must not be a value group
// (value-group steps are then allowed only in front of an aggregate function).
func (g *Gen) operandPath(single bool, fdepth int) *spec.Path {
	p := &spec.Path{Root: '@'}
	if g.R.Intn(3) == 0 {
		p.Root = '$'
	}
	if single && g.R.Intn(8) == 0 && len(g.Aggrs) > 0 {
		// value group made single by an aggregate
		p.Steps = g.steps(1+g.R.Intn(2), false, fdepth)
		p.Funcs = []string{g.Aggrs[g.R.Intn(len(g.Aggrs))]}
		if g.R.Intn(3) == 0 {
			p.Funcs = append(p.Funcs, g.funcs(1)...)
		}
		return p
	}
	p.Steps = g.steps(g.R.Intn(3), single, fdepth)
	if g.R.Intn(6) == 0 {
		p.Funcs = g.funcs(2)
	}
	return p
}

func NumLit(v float64, text string) spec.Operand {
	if text == "" {
		text = strconv.FormatFloat(v, 'g', -1, 64)
	}
	return spec.Operand{IsLit: true, Lit: v, LitText: text}
}

func StrLit(s string, dq bool) spec.Operand {
	q := "'"
	if dq {
		q = `"`
	}
	esc := ""
	for _, r := range s {
		if string(r) == q || r == '\\' {
			esc += `\`
		}
		esc += string(r)
	}
	return spec.Operand{IsLit: true, Lit: s, LitText: q + esc + q}
}

func (g *Gen) numLiteral() spec.Operand {
	v := numPool[g.R.Intn(len(numPool))]
	switch g.R.Intn(8) {
	case 0:
		if v >= 0 {
			return NumLit(v, "+"+strconv.FormatFloat(v, 'g', -1, 64))
		}
	case 1:
		return NumLit(v, strconv.FormatFloat(v, 'e', -1, 64))
	case 2:
		if v == math.Trunc(v) {
			return NumLit(v, strconv.FormatFloat(v, 'f', 1, 64))
		}
	}
	return NumLit(v, "")
}

func (g *Gen) literal() spec.Operand {
	switch g.R.Intn(8) {
	case 0, 1, 2:
		return g.numLiteral()
	case 3, 4:
		pool := []string{"a", "b", "", "1", "ab", "a'b", `a"b`, `a\b`, "é", `a\`, `\`, `\\`, `'`, `"`, `\'`, `a\"`, `/`, `)]`, `&&`}
		s := pool[g.R.Intn(len(pool))]
		if g.R.Intn(3) > 0 {
			s = strPool[g.R.Intn(len(strPool))]
		}
		return StrLit(s, g.R.Intn(3) == 0)
	case 5, 6:
		b := g.R.Intn(2) == 0
		t := [][]string{{"false", "False", "FALSE"}, {"true", "True", "TRUE"}}
		i := 0
		if b {
			i = 1
		}
		return spec.Operand{IsLit: true, Lit: b, LitText: t[i][g.R.Intn(3)]}
	}
	return spec.Operand{IsLit: true, Lit: nil, LitText: []string{"null", "Null", "NULL"}[g.R.Intn(3)]}
}

var Regexes = func() []string {
	out := []string{"a", "^a", "b$", "", "1", "(?i)A", "^$", "a|b", `\/`, ".", `x\\`, `^\\`, `\\\/`}
	// every combination of flag x start anchor x body x end anchor: anchored literals, anchored classes, multi-line and
	// case-insensitive variants (an engine shortcut for "simple" patterns has to get each of them right)
	seen := map[string]bool{}
	for _, x := range out {
		seen[x] = true
	}
	for _, flag := range []string{"", "(?i)", "(?m)", "(?s)"} {
		for _, start := range []string{"", "^", `\A`} {
			for _, body := range []string{"a", "ab", "b", "1", `a\.b`, `1\.5`, "a.b", "[ab]", "(a)", "a*", "A"} {
				for _, end := range []string{"", "$", `\z`} {
					if re := flag + start + body + end; !seen[re] {
						seen[re] = true
						out = append(out, re)
					}
				}
			}
		}
	}
	return out
}()

var CmpOps = []string{"==", "!=", "<", "<=", ">", ">="}

// Query generates a filter query: logical nesting up to depth, nested filters up to fdepth.
func (g *Gen) Query(depth, fdepth int) *spec.Query {
	if depth > 0 && g.R.Intn(3) == 0 {
		op := spec.QAnd
		if g.R.Intn(2) == 0 {
			op = spec.QOr
		}
		return &spec.Query{Op: op, L: g.Query(depth-1, fdepth), R: g.Query(depth-1, fdepth)}
	}
	switch g.R.Intn(10) {
	case 0, 1:
		return &spec.Query{Op: spec.QExist, P: g.operandPath(false, fdepth)}
	case 2:
		return &spec.Query{Op: spec.QNot, P: g.operandPath(false, fdepth)}
	case 3:
		if depth > 0 {
			return &spec.Query{Op: spec.QParen, L: g.Query(depth-1, fdepth)}
		}
		fallthrough
	case 4:
		return &spec.Query{Op: spec.QRegex, P: g.operandPath(true, fdepth), Re: Regexes[g.R.Intn(len(Regexes))]}
	}
	return g.Comparison(CmpOps[g.R.Intn(len(CmpOps))], fdepth)
}

// Comparison generates `L op R` with operands that the grammar and the
// semantic restrictions accept.
func (g *Gen) Comparison(op string, fdepth int) *spec.Query {
	mk := func(allowAt bool) spec.Operand {
		for {
			var o spec.Operand
			if g.R.Intn(2) == 0 {
				if op == "==" || op == "!=" {
					o = g.literal()
				} else {
					o = g.numLiteral()
				}
			} else {
				o = spec.Operand{P: g.operandPath(true, fdepth)}
			}
			if !allowAt && !o.IsLit && o.P.Root == '@' {
				continue
			}
			return o
		}
	}
	lo := mk(true)
	ro := mk(lo.IsLit || lo.P.Root != '@')
	return &spec.Query{Op: spec.QCmp, Cmp: op, LO: lo, RO: ro}
}

// RandomSpelling returns a spelling whose free choices are drawn from r.
func RandomSpelling(r *rand.Rand) spec.Spelling {
	spaceP := r.Intn(4) // 0: none
	return spec.Spelling{
		Sp: func() string {
			if spaceP == 0 || r.Intn(4) >= spaceP {
				return ""
			}
			return "   "[:1+r.Intn(3)]
		},
		DQ: func() bool { return r.Intn(2) == 0 },
		Int: func(v int64) string {
			s := strconv.FormatInt(v, 10)
			switch r.Intn(4) {
			case 0:
				if v >= 0 {
					return "+" + s
				}
			case 1:
				if v >= 0 {
					return "00" + s
				}
				return "-0" + s[1:]
			}
			return s
		},
		AltName:   func() bool { return r.Intn(3) == 0 },
		AltWild:   func() bool { return r.Intn(3) == 0 },
		NoRoot:    func() bool { return r.Intn(3) == 0 },
		EmptyStep: func() bool { return r.Intn(2) == 0 },
	}
}

func describeStep(s *spec.Step) string {
	switch s.Kind {
	case spec.KUnion:
		k := "union"
		if len(s.Subs) == 1 {
			k = [...]string{"index", "slice", "wildsub"}[s.Subs[0].Kind]
		}
		return k
	case spec.KMulti:
		all := true
		for _, it := range s.Items {
			all = all && it.Wild
		}
		if all {
			return "multi-allwild"
		}
		return "multi"
	}
	return s.Kind.String()
}

// StepKinds lists the step kinds of a path in order, ".." fused with its operand: "rec+name".
func StepKinds(p *spec.Path) []string {
	var out []string
	for i := 0; i < len(p.Steps); i++ {
		s := &p.Steps[i]
		if s.Kind == spec.KRec && i+1 < len(p.Steps) {
			out = append(out, "rec+"+describeStep(&p.Steps[i+1]))
			i++
			continue
		}
		out = append(out, describeStep(s))
	}
	return out
}

// OperandKind classifies a comparison operand for the coverage matrix.
func OperandKind(o spec.Operand) string {
	if o.IsLit {
		switch o.Lit.(type) {
		case float64:
			return "num"
		case string:
			return "str"
		case bool:
			return "bool"
		}
		return "null"
	}
	k := string(o.P.Root)
	if len(o.P.Steps) > 0 {
		k += "path"
	}
	if len(o.P.Funcs) > 0 {
		k += "+fn"
	}
	return k
}

func init() { _ = fmt.Sprint }
