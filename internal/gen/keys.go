package gen

import (
	"math/rand"
	"strings"
)

var keyRunes = []rune{
	'a', 'B', 'z', '0', '9', '-', '_', ' ', '!', '"', '#', '$', '%', '&', '\'', '(', ')', '*', '+', ',', '.', '/', ':', ';', '<', '=', '>', '?', '@',
	'[', '\\', ']', '^', '`', '{', '|', '}', '~',
	0x00, 0x01, 0x08, 0x09, 0x0a, 0x0c, 0x0d, 0x1f, 0x7f, 0x80, 0x85, 0x9f, 0xa0, 0xe9, 0xff, 0x100, 0x3b1, 0x3042, 0x4e2d, 0x2028, 0x200b, 0xfeff,
	0xd7ff, 0xe000, 0xfffd, 0xfffe, 0xffff, 0x10000, 0x1f600, 0x10ffff, 0xff41,
}

var keyChunks = []string{`\n`, `A`, `\ud800`, `\udc00`, `\\`, `\'`, `\"`, `\/`, `\b`, `u0041`, `()`, `..`, `*`, `$`, `@`, `?(`, `[0]`, `'a'`, `a.b`, `true`, `null`, `length`,
	"\ufffd", "\ufffdA", "\ufffd\ufffd", "\ufffd\U0001F600", "a\ufffd"}

// Key draws a key of 0..12 characters from all Unicode planes, ASCII symbols,
// controls and escape-looking sequences.
func Key(r *rand.Rand) string {
	n := r.Intn(13)
	if r.Intn(12) == 0 {
		n = 0
	}
	var b strings.Builder
	for i := 0; i < n; i++ {
		switch r.Intn(10) {
		case 0:
			b.WriteString(keyChunks[r.Intn(len(keyChunks))])
		case 1:
			b.WriteRune(rune(r.Intn(0x80)))
		case 2:
			x := rune(r.Intn(0x110000))
			if x >= 0xd800 && x <= 0xdfff {
				x = 0xfffd
			}
			b.WriteRune(x)
		default:
			b.WriteRune(keyRunes[r.Intn(len(keyRunes))])
		}
	}
	s := b.String()
	rs := []rune(s)
	if len(rs) > 12 {
		s = string(rs[:12])
	}
	return s
}

// NearMisses returns sibling keys that differ from k by escape characters or one character.
func NearMisses(k string) []string {
	rs := []rune(k)
	out := []string{k + "x", `\` + k, k + `\`, "'" + k + "'", `"` + k + `"`, k + " ", " " + k, strings.ReplaceAll(k, `\`, ``), strings.ReplaceAll(k, `\`, `\\`)}
	if len(rs) > 0 {
		out = append(out, string(rs[1:]), string(rs[:len(rs)-1]), strings.ToUpper(k), strings.ToLower(k))
	}
	// one character deleted / doubled inside the key (all positions of short keys, three positions of longer ones)
	for i := 1; i+1 < len(rs); i++ {
		if len(rs) <= 6 || i == 1 || i == len(rs)/2 || i == len(rs)-2 {
			out = append(out, string(rs[:i])+string(rs[i+1:]), string(rs[:i+1])+string(rs[i:]))
		}
	}
	var uniq []string
	seen := map[string]bool{k: true}
	for _, s := range out {
		if !seen[s] {
			seen[s] = true
			uniq = append(uniq, s)
		}
	}
	return uniq
}
