package gen

import (
	"errors"
	"math/rand"
	"sort"
)

type opaqueStruct struct {
	A int
	B string
}
type uncomparable struct {
	S []int
	M map[string]int
}
type namedString string
type namedFloat float64
type namedMap map[string]interface{}
type namedSlice []interface{}
type namedBool bool
type errHolder struct{ Err error }

var (
	opaqueInt   = 7
	opaqueChan  = make(chan int)
	opaqueFunc  = func() {}
	opaqueFunc2 = func(int) int { return 0 }
	opaqueErr   = errors.New("leaf error")
	opaqueS     = opaqueStruct{1, "x"}
)

// OpaqueKinds names the non-JSON leaf kinds (index into Opaque).
var OpaqueKinds = []string{"struct", "empty-struct", "uncomparable-struct", "ptr-struct", "ptr-int", "nil-ptr", "nil-map", "nil-slice",
	"typed-map", "typed-slice", "array", "int", "int64", "uint8", "float32", "complex", "func", "func2", "chan", "bytes", "error",
	"map-iface-iface", "slice-of-maps", "named-string", "named-float", "named-map", "named-slice", "map-string-int", "uncomparable-ptr",
	// statically comparable types whose DYNAMIC content is not (interface == on them panics), and pointers that are
	// distinct objects with deep-equal content (identity and deep equality disagree)
	"struct-iface-slice", "struct-iface-map", "array-iface-slice", "fresh-ptr-struct", "fresh-ptr-int", "fresh-ptr-slice", "struct-with-fresh-ptr", "iface-array-comparable", "named-bool", "nil-func", "nil-chan", "nil-error-iface-in-struct", "rune", "uintptr"}

type ifaceHolder struct {
	Name  string
	Value interface{}
}

type ptrHolder struct {
	ID   int
	Next *int
}

// Opaque returns the i-th non-JSON Go value.
func Opaque(i int) interface{} {
	switch OpaqueKinds[i%len(OpaqueKinds)] {
	case "struct":
		return opaqueS
	case "empty-struct":
		return struct{}{}
	case "uncomparable-struct":
		return uncomparable{S: []int{1}, M: map[string]int{"a": 1}}
	case "ptr-struct":
		return &opaqueS
	case "ptr-int":
		return &opaqueInt
	case "nil-ptr":
		return (*opaqueStruct)(nil)
	case "nil-map":
		return map[string]interface{}(nil)
	case "nil-slice":
		return []interface{}(nil)
	case "typed-map":
		return map[string]string{"a": "b"}
	case "typed-slice":
		return []string{"a", "b"}
	case "array":
		return [2]interface{}{1.0, "a"}
	case "int":
		return 1
	case "int64":
		return int64(1)
	case "uint8":
		return uint8(1)
	case "float32":
		return float32(1)
	case "complex":
		return complex(1, 0)
	case "func":
		return opaqueFunc
	case "func2":
		return opaqueFunc2
	case "chan":
		return opaqueChan
	case "bytes":
		return []byte("a")
	case "error":
		return opaqueErr
	case "map-iface-iface":
		return map[interface{}]interface{}{"a": 1.0}
	case "slice-of-maps":
		return []map[string]interface{}{{"a": 1.0}}
	case "named-string":
		return namedString("a")
	case "named-float":
		return namedFloat(1)
	case "named-map":
		return namedMap{"a": 1.0}
	case "named-slice":
		return namedSlice{1.0}
	case "map-string-int":
		return map[string]int{"a": 1}
	case "uncomparable-ptr":
		return &uncomparable{S: []int{1}}
	case "struct-iface-slice":
		return ifaceHolder{Name: "n", Value: []int{1, 2}}
	case "struct-iface-map":
		return ifaceHolder{Name: "n", Value: map[string]int{"a": 1}}
	case "array-iface-slice":
		return [1]interface{}{[]string{"a"}}
	case "fresh-ptr-struct":
		return &opaqueStruct{1, "x"} // a new object on every call
	case "fresh-ptr-int":
		v := 7
		return &v
	case "fresh-ptr-slice":
		return &[]int{1, 2}
	case "struct-with-fresh-ptr":
		v := 7
		return ptrHolder{ID: 1, Next: &v}
	case "iface-array-comparable":
		return [2]interface{}{1.0, "a"}
	case "named-bool":
		return namedBool(true)
	case "nil-func":
		return (func())(nil)
	case "nil-chan":
		return (chan int)(nil)
	case "nil-error-iface-in-struct":
		return errHolder{}
	case "rune":
		return 'a'
	case "uintptr":
		return uintptr(1)
	}
	return nil
}

// Opaquify replaces leaves of d (in place where possible) by non-JSON values
// with probability p/16 each; it returns the new document and the kinds used.
// nil maps / nil slices of the JSON container types are kept as they are legal
// inputs that look like empty containers.
func Opaquify(r *rand.Rand, d interface{}, p int, used map[string]bool) interface{} {
	switch t := d.(type) {
	case map[string]interface{}:
		ks := make([]string, 0, len(t))
		for k := range t {
			ks = append(ks, k)
		}
		sort.Strings(ks) // the PRNG must be consumed in a deterministic order
		for _, k := range ks {
			t[k] = Opaquify(r, t[k], p, used)
		}
		return t
	case []interface{}:
		for i, v := range t {
			t[i] = Opaquify(r, v, p, used)
		}
		return t
	}
	if r.Intn(16) < p {
		i := r.Intn(len(OpaqueKinds))
		used[OpaqueKinds[i]] = true
		return Opaque(i)
	}
	return d
}
