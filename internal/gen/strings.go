package gen

import (
	"math/rand"
	"os"
	"regexp"
	"strings"
	"unicode/utf8"

	"verif/internal/pegi"
	"verif/internal/spec"
)

// Tokens is the alphabet of the token-soup generator.
var Tokens = []string{"$", "@", ".", "..", "*", "[", "]", "(", ")", "?(", "'", "\"", "a", "b", "1", "0", "-1", ":", ",", " ",
	"==", "!=", "<", "<=", ">", ">=", "=~", "/", "&&", "||", "!", "true", "false", "null", ".twice()", ".count()", ".nofn()", "()", "\\",
	"'a'", "\"b\"", "1.5", "1e3", "+", "-", "é", "\x00", "\xff", "\x7f", "\x1f", "9223372036854775807", "9223372036854775808",
	"-9223372036854775808", "-9223372036854775809", "2147483648", "[?(", ")]", "@.a", "$.a", "[0]", "[*]", "['a','b']", "(?i)",
	"\\u0041", "\\ud800", "\\'", "あ", "\U0001F600", "1e400", "0x1p4", "[(", "TRUE", "Null", "\t", "\n", "[1:2]", "::", "[,]", "@.*", "$..a", "/a/", "/(/"}

// SuiteCase is a (path, document) pair harvested from the library's own test file.
type SuiteCase struct{ Path, JSON string }

var suiteRe = regexp.MustCompile("jsonpath:\\s*`([^`]*)`,\\s*\\n\\s*inputJSON:\\s*`([^`]*)`")

// HarvestSuite reads the string literals of /repo/test_jsonpath_test.go at run
// time (they seed the mutation generators; nothing else of the suite is used).
func HarvestSuite() []SuiteCase {
	root := os.Getenv("VERIF_REPO")
	if root == "" {
		root = "/repo"
	}
	b, err := os.ReadFile(root + "/test_jsonpath_test.go")
	if err != nil {
		return nil
	}
	var out []SuiteCase
	seen := map[string]bool{}
	for _, m := range suiteRe.FindAllStringSubmatch(string(b), -1) {
		if !seen[m[1]+"\x00"+m[2]] {
			seen[m[1]+"\x00"+m[2]] = true
			out = append(out, SuiteCase{m[1], m[2]})
		}
	}
	return out
}

// StrGen produces the hostile path strings of C02 / C03 / C17.
type StrGen struct {
	Suite   []SuiteCase
	Grammar *pegi.Grammar
	Sys     []string // rendered systematic sentences
	spans   map[string][]span
}

type span struct {
	rule       string
	begin, end int
}

// SpliceHosts: valid paths that between them contain every construct of the grammar.
var SpliceHosts = []string{
	`$[?(@.a == "x")]`, `$[?(@.a == 'x')].b`, `$[?("x" != @.a)]`, `$['a','b']`, `$["a"]`, `$['a'].b`, `$[1:2:3]`, `$[-1]`, `$[0,1:2,*]`, `$[?(@.a =~ /ab/)]`,
	`$[?(@.a > 1.5e3 && !@.b || (@.c != null))]`, `$..a[0,1].twice()`, `$.a\.b`, `$[?(@.a[?(@.b == true)])]`, `$[?($.x.count() >= @.a.twice())]`, `$..['a','b'].c`,
	`$.*[*]..*`, `a.b`, `['a']`, `$[ 'a' , "b" ]`, `$[?( @.a == 1 )]`, `$[ 1 : 2 ]`, `$[?(@['a'] <= $["b"][0])]`, `$[?(@.a == False || @.b == NULL)]`, `$..[?(@.a)]`, `$[*,*]`,
	`$.a.twice().count()`, `$[?(@.a.count() == 1)]`, `$['\u0041\n\\']`, `$["\"\/"]`, `$[?(@ == 'a\'b')]`, `$[?(@ == "a\"b\\")]`, `$[::2]`, `$[+1:-0:-1]`,
}

// Splice takes a valid host path, picks one node of its parse tree (by the grammar in
// /repo/jsonpath.peg) and replaces that node's text by a random derivation of the same
// rule: exactly one sub-rule instance is near-language noise, everything around it is valid.
func (sg *StrGen) Splice(r *rand.Rand) string {
	if sg.Grammar == nil {
		return soup(r)
	}
	var host string
	if r.Intn(3) == 0 && len(sg.Sys) > 0 {
		host = sg.Sys[r.Intn(len(sg.Sys))]
	} else {
		host = SpliceHosts[r.Intn(len(SpliceHosts))]
	}
	if sg.spans == nil {
		sg.spans = map[string][]span{}
	}
	sp, ok := sg.spans[host]
	if !ok {
		m := pegi.NewMatcher(sg.Grammar, host)
		if _, node, matched := m.MatchRule("jsonpath", 0); matched {
			var walk func(n *pegi.Node)
			walk = func(n *pegi.Node) {
				if n.End > n.Begin || n.Rule == "space" {
					sp = append(sp, span{n.Rule, n.Begin, n.End})
				}
				for _, k := range n.Kids {
					walk(k)
				}
			}
			walk(node)
		}
		sg.spans[host] = sp
	}
	if len(sp) == 0 {
		return host
	}
	x := sp[r.Intn(len(sp))]
	runes := []rune(host)
	repl := sg.Grammar.Derive(r, x.rule, 3+r.Intn(4))
	return Clip(string(runes[:x.begin]) + repl + string(runes[x.end:]))
}

// Mutate applies n character-level mutations (delete / insert a token / replace by a token start / duplicate a span / swap).
func Mutate(r *rand.Rand, s string, n int) string {
	bs := []byte(s)
	for j := 0; j < n; j++ {
		if len(bs) == 0 {
			bs = append(bs, Tokens[r.Intn(len(Tokens))]...)
			continue
		}
		pos := r.Intn(len(bs))
		switch r.Intn(6) {
		case 0:
			bs = append(bs[:pos], bs[pos+1:]...)
		case 1, 2:
			t := Tokens[r.Intn(len(Tokens))]
			bs = append(bs[:pos], append([]byte(t), bs[pos:]...)...)
		case 3:
			t := Tokens[r.Intn(len(Tokens))]
			bs[pos] = t[0]
		case 4:
			end := pos + 1 + r.Intn(6)
			if end > len(bs) {
				end = len(bs)
			}
			span := append([]byte{}, bs[pos:end]...)
			bs = append(bs[:end], append(span, bs[end:]...)...)
		case 5:
			q := r.Intn(len(bs))
			bs[pos], bs[q] = bs[q], bs[pos]
		}
	}
	return Clip(string(bs))
}

// Clip limits a string to 256 characters.
func Clip(s string) string {
	if utf8.RuneCountInString(s) <= 256 {
		return s
	}
	n := 0
	for i := range s {
		if n == 256 {
			return s[:i]
		}
		n++
	}
	return s
}

func soup(r *rand.Rand) string {
	k := 1 + r.Intn(12)
	var b strings.Builder
	for j := 0; j < k; j++ {
		b.WriteString(Tokens[r.Intn(len(Tokens))])
	}
	return b.String()
}

func unicodeNoise(r *rand.Rand) string {
	n := r.Intn(24)
	var b strings.Builder
	if r.Intn(2) == 0 {
		b.WriteString([]string{"$", "$.", "$[", "$['", "$[?(@.", "$..", "@", ""}[r.Intn(8)])
	}
	for i := 0; i < n; i++ {
		switch r.Intn(8) {
		case 0:
			b.WriteByte(byte(r.Intn(256))) // arbitrary byte: invalid UTF-8 welcome
		case 1:
			b.WriteRune(rune(r.Intn(0x80)))
		case 2:
			b.WriteRune(rune(0x80 + r.Intn(0x780)))
		case 3:
			b.WriteRune(rune(0x800 + r.Intn(0xd000)))
		case 4:
			b.WriteRune(rune(0x10000 + r.Intn(0x100000)))
		case 5:
			b.WriteRune([]rune{0xfffd, 0xffff, 0xfeff, 0x2028, 0x200b, 0xe000}[r.Intn(6)])
		default:
			b.WriteString(Tokens[r.Intn(len(Tokens))])
		}
	}
	return b.String()
}

// Classes of generated strings (for coverage accounting).
var StrClasses = []string{"sys", "ast", "ast-spelled", "ast-mutated", "suite", "suite-mutated", "soup", "unicode", "grammar", "splice", "nest", "restricted"}

// Restricted renders a filter whose comparison (or regex) operand is made a VALUE GROUP by exactly one inserted step of a
// random multi-valued kind (wildcard, multi-name, union, every slice form incl. negative and omitted steps, filter,
// recursive descent), or whose two operands are both `@`-rooted: sentences of the grammar that the semantic
// restrictions reject. The AST generators never produce them (they only build accepted paths).
func (g *Gen) Restricted() string {
	r := g.R
	vg := func() spec.Step {
		sl := func(s, e, t *int64) spec.Step {
			return spec.Step{Kind: spec.KUnion, Subs: []spec.Sub{{Kind: spec.SSlice, Start: s, End: e, Step: t}}}
		}
		switch r.Intn(12) {
		case 0:
			return spec.Step{Kind: spec.KWild, Bracket: r.Intn(2) == 0}
		case 1:
			return spec.Step{Kind: spec.KMulti, Items: []spec.MItem{{Key: g.key()}, {Key: g.key()}}}
		case 2:
			return spec.Step{Kind: spec.KMulti, Items: []spec.MItem{{Wild: true}, {Key: g.key()}}}
		case 3:
			return spec.Step{Kind: spec.KUnion, Subs: []spec.Sub{{Kind: spec.SIndex, N: 0}, {Kind: spec.SIndex, N: g.smallInt()}}}
		case 4:
			return sl(ip(g.smallInt()), ip(g.smallInt()), ip(1+int64(r.Intn(3))))
		case 5:
			return sl(ip(g.smallInt()), ip(g.smallInt()), ip(-1-int64(r.Intn(3)))) // negative step
		case 6:
			return sl(nil, nil, ip(-1))
		case 7:
			return sl(ip(g.smallInt()), nil, nil)
		case 8:
			return sl(nil, ip(g.smallInt()), ip(0))
		case 9:
			return spec.Step{Kind: spec.KFilter, Q: &spec.Query{Op: spec.QExist, P: &spec.Path{Root: '@', Steps: []spec.Step{{Kind: spec.KName, Key: g.key()}}}}}
		case 10:
			return spec.Step{Kind: spec.KUnion, Subs: []spec.Sub{{Kind: spec.SWild}}}
		}
		return spec.Step{Kind: spec.KRec}
	}
	operand := func(root byte) *spec.Path {
		p := &spec.Path{Root: root, Steps: g.steps(r.Intn(3), true, 0)}
		return p
	}
	insertVG := func(p *spec.Path) {
		st := vg()
		at := r.Intn(len(p.Steps) + 1)
		steps := append([]spec.Step{}, p.Steps[:at]...)
		steps = append(steps, st)
		if st.Kind == spec.KRec {
			steps = append(steps, spec.Step{Kind: spec.KName, Key: g.key()})
		}
		p.Steps = append(steps, p.Steps[at:]...)
		if r.Intn(5) == 0 && len(g.Funcs) > 0 {
			p.Funcs = []string{g.Funcs[r.Intn(len(g.Funcs))]} // a filter function keeps the operand a value group
		}
	}
	var q *spec.Query
	root := []byte{'@', '@', '$'}[r.Intn(3)]
	switch r.Intn(8) {
	case 0:
		p := operand(root)
		insertVG(p)
		q = &spec.Query{Op: spec.QRegex, P: p, Re: "a"}
	case 1: // two current-node operands, no value group
		q = &spec.Query{Op: spec.QCmp, Cmp: CmpOps[r.Intn(len(CmpOps))], LO: spec.Operand{P: operand('@')}, RO: spec.Operand{P: operand('@')}}
	default:
		p := operand(root)
		insertVG(p)
		op := CmpOps[r.Intn(len(CmpOps))]
		var other spec.Operand
		switch {
		case r.Intn(3) == 0 && root == '@':
			other = spec.Operand{P: operand('$')}
		case op == "==" || op == "!=":
			other = g.literal()
		default:
			other = g.numLiteral()
		}
		lo, ro := spec.Operand{P: p}, other
		if r.Intn(2) == 0 {
			lo, ro = ro, lo
		}
		q = &spec.Query{Op: spec.QCmp, Cmp: op, LO: lo, RO: ro}
	}
	if r.Intn(4) == 0 {
		// inside a logical expression next to an accepted comparison
		ok := g.Comparison("==", 0)
		if r.Intn(2) == 0 {
			q = &spec.Query{Op: spec.QAnd, L: ok, R: q}
		} else {
			q = &spec.Query{Op: spec.QOr, L: q, R: ok}
		}
	}
	host := &spec.Path{Root: '$', Steps: append(g.steps(r.Intn(2), false, 0), spec.Step{Kind: spec.KFilter, Q: q})}
	if r.Intn(2) == 0 {
		s, _ := host.Render(RandomSpelling(r))
		return s
	}
	return host.Text()
}

// Next returns one string and the class it came from. g supplies random ASTs.
func (sg *StrGen) Next(r *rand.Rand, g *Gen) (string, string) {
	switch c := r.Intn(28); {
	case c >= 26:
		return Clip(g.Restricted()), "restricted"
	case c >= 24:
		return Clip(Nest(r)), "nest"
	case c >= 20:
		return sg.Splice(r), "splice"
	case c < 2 && len(sg.Sys) > 0:
		return sg.Sys[r.Intn(len(sg.Sys))], "sys"
	case c < 4:
		return Clip(g.Path(5, 2).Text()), "ast"
	case c < 6:
		s, _ := g.Path(5, 2).Render(RandomSpelling(r))
		return Clip(s), "ast-spelled"
	case c < 10:
		s, _ := g.Path(4, 2).Render(RandomSpelling(r))
		return Mutate(r, s, 1+r.Intn(3)), "ast-mutated"
	case c < 11 && len(sg.Suite) > 0:
		return Clip(sg.Suite[r.Intn(len(sg.Suite))].Path), "suite"
	case c < 14 && len(sg.Suite) > 0:
		return Mutate(r, sg.Suite[r.Intn(len(sg.Suite))].Path, 1+r.Intn(3)), "suite-mutated"
	case c < 16:
		return Clip(soup(r)), "soup"
	case c < 17:
		return Clip(unicodeNoise(r)), "unicode"
	default:
		if sg.Grammar != nil {
			s := sg.Grammar.Derive(r, "jsonpath", 4+r.Intn(5))
			if r.Intn(4) == 0 {
				s = Mutate(r, s, 1)
			}
			return Clip(s), "grammar"
		}
		return Clip(soup(r)), "soup"
	}
}

// SysSentences renders the bounded-exhaustive reduced grammar: step-kind
// sequences (with function suffixes) and every comparison / logical shape,
// valid or not.
func SysSentences(maxLen, fnLen int, f, g string) []string {
	var out []string
	for _, p := range SysPaths(maxLen, fnLen, f, g) {
		out = append(out, p.Text())
	}
	for _, q := range SysComparisons(f, g, false) {
		out = append(out, (&spec.Path{Root: '$', Steps: []spec.Step{{Kind: spec.KFilter, Q: q}}}).Text())
	}
	for _, q := range SysLogical() {
		out = append(out, (&spec.Path{Root: '$', Steps: []spec.Step{{Kind: spec.KFilter, Q: q}}}).Text())
	}
	return out
}

// LoadGrammar parses /repo/jsonpath.peg.
func LoadGrammar() (*pegi.Grammar, error) {
	root := os.Getenv("VERIF_REPO")
	if root == "" {
		root = "/repo"
	}
	b, err := os.ReadFile(root + "/jsonpath.peg")
	if err != nil {
		return nil, err
	}
	return pegi.ParseGrammar(string(b))
}

// SuiteExpect is one case of the library's own test file together with what the maintainers expect.
type SuiteExpect struct {
	Path, JSON   string
	ExpectedJSON string // "" when an error is expected
	ErrKind      string // member / type / "" (other or none)
	ErrArgs      []string
	Custom       bool // the case uses its own functions, accessor mode, unmarshal function or validator
}

var (
	pathRe    = regexp.MustCompile("jsonpath:\\s*`([^`]*)`,")
	inputRe   = regexp.MustCompile("inputJSON:\\s*`([^`]*)`")
	expJSONRe = regexp.MustCompile("expectedJSON:\\s*`([^`]*)`")
	errMemRe  = regexp.MustCompile("expectedErr:\\s*createErrorMemberNotExist\\(`([^`]*)`\\)")
	errTypeRe = regexp.MustCompile("expectedErr:\\s*createErrorTypeUnmatched\\(`([^`]*)`,\\s*`([^`]*)`,\\s*`([^`]*)`\\)")
)

// HarvestSuiteExpectations reads the (path, input, expectation) triples of /repo/test_jsonpath_test.go.
func HarvestSuiteExpectations() []SuiteExpect {
	root := os.Getenv("VERIF_REPO")
	if root == "" {
		root = "/repo"
	}
	b, err := os.ReadFile(root + "/test_jsonpath_test.go")
	if err != nil {
		return nil
	}
	var out []SuiteExpect
	src := string(b)
	locs := pathRe.FindAllStringSubmatchIndex(src, -1)
	for i, loc := range locs {
		m := []string{"", src[loc[2]:loc[3]]}
		end := len(src)
		if i+1 < len(locs) {
			end = locs[i+1][0]
		}
		body := src[loc[1]:end] // everything up to the next case
		in := inputRe.FindStringSubmatch(body)
		if in == nil {
			continue
		}
		e := SuiteExpect{Path: m[1], JSON: in[1]}
		for _, w := range []string{"filters:", "aggregates:", "accessorMode:", "unmarshalFunc:", "resultValidator:"} {
			if strings.Contains(body, w) {
				e.Custom = true
			}
		}
		if x := errMemRe.FindStringSubmatch(body); x != nil {
			e.ErrKind, e.ErrArgs = "member", x[1:]
		} else if x := errTypeRe.FindStringSubmatch(body); x != nil {
			e.ErrKind, e.ErrArgs = "type", x[1:]
		} else if strings.Contains(body, "expectedErr:") {
			continue // syntax-check errors, function errors: not SPEC's business (an expectedErr wins over an expectedJSON in the suite)
		} else if x := expJSONRe.FindStringSubmatch(body); x != nil {
			e.ExpectedJSON = x[1]
		} else if x := errMemRe.FindStringSubmatch(body); x != nil {
			e.ErrKind, e.ErrArgs = "member", x[1:]
		} else if x := errTypeRe.FindStringSubmatch(body); x != nil {
			e.ErrKind, e.ErrArgs = "type", x[1:]
		} else {
			continue // syntax errors etc.: not SPEC's business
		}
		out = append(out, e)
	}
	return out
}

// Nest builds deeply nested or very long but regular paths (within 256 characters): filters inside
// filter operands, parentheses, long logical chains, long step / union / function chains. They are
// what makes a backtracking parser or a recursive evaluator super-linear.
func Nest(r *rand.Rand) string {
	rep := func(s string, n int) string { return strings.Repeat(s, n) }
	switch r.Intn(15) {
	case 12, 13, 14:
		// one or two segments of ANY step form repeated, half of the time as often as 256 characters allow: whatever the
		// parser does per step (linking, labelling, copying to the inner selectors of a multi-name selector) is done
		// up to 80 times over; anything super-linear in the number of steps shows as a hang
		segs := []string{".a", "..a", "[0]", ".*", "['a']", "[*]", "[0:1]", "['a','b']", "['a','b','c']", "[*,*]", "[0,1]", "[0,*]", "[*,'a']", "[?(@.a)]", "[?(@)]",
			"[1:2,0]", "..['a','b']", "..*", "..[*]", "..[0,1]", "[?(@.a==1)]", "[?($)]", "[-1]", "[::2]", `["a","b"]`, "[ 'a' , 'b' ]", "['a','a']", "[?(!@.x)]"}
		a, b := segs[r.Intn(len(segs))], ""
		if r.Intn(3) == 0 {
			b = segs[r.Intn(len(segs))]
		}
		max := (255 - 8) / (len(a) + len(b))
		for _, dup := range []string{"[*,*]", "[0,*]", "[*,'a']", "['a','a']"} {
			if (a == dup || b == dup) && max > 10 {
				max = 10 // these select the same child twice: k of them in a row mean 2^k results in any evaluator
			}
		}
		if (strings.HasPrefix(a, "..") || strings.HasPrefix(b, "..")) && !(a == "..a" && b == "") && max > 4 {
			max = 4 // k descents over a document of depth d select O(d^k) nodes in any evaluator (documents are built to be hit)
		}
		n := max
		if r.Intn(2) == 0 {
			n = 1 + r.Intn(max)
		}
		out := []string{"$", "", "$.x"}[r.Intn(3)] + rep(a+b, n)
		if out[0] == '.' && !strings.HasPrefix(out, "..") {
			out = out[1:] // rootless dot-notation starts with the name itself
		}
		switch r.Intn(6) {
		case 0:
			out += ".count()"
		case 1:
			out = "$[?(@" + rep(a+b, n*4/5) + ")]"
		}
		return out
	case 0: // filter inside filter operand (existence)
		d := 1 + r.Intn(40)
		return "$" + rep("[?(@", d) + ".a" + rep(")]", d)
	case 1: // filter inside comparison operand
		d := 1 + r.Intn(24)
		return "$" + rep("[?(@", d) + ".a" + rep("==1)]", d)
	case 2: // parentheses
		d := 1 + r.Intn(110)
		return "$[?(" + rep("(", d) + "@.a" + rep(")", d) + ")]"
	case 3: // nested parentheses with operators
		d := 1 + r.Intn(40)
		return "$[?(" + rep("(@.a&&", d) + "@.b" + rep(")", d) + ")]"
	case 4:
		return "$[?(" + rep("@.a&&", 1+r.Intn(45)) + "@.b)]"
	case 5:
		return "$[?(" + rep("@.a==1||", 1+r.Intn(28)) + "@.b)]"
	case 6:
		return "$" + rep([]string{".a", "..a", "[0]", ".*", "['a']", "[*]", "[0:1]"}[r.Intn(7)], 1+r.Intn(60))
	case 7:
		return "$[" + rep("0,", 1+r.Intn(100)) + "0]"
	case 8:
		return "$[" + rep("'a',", 1+r.Intn(50)) + "*]"
	case 9:
		return "$.a" + rep([]string{".ident()", ".count()", ".nofn()", ".wrap()"}[r.Intn(4)], 1+r.Intn(25))
	case 10: // `$`-rooted filters nested in `$` operands
		d := 1 + r.Intn(30)
		return "$" + rep("[?($", d) + ".a" + rep(")]", d)
	default: // recursive descent with nested filters; evaluation cost is (containers of the document)^d by the
		// very meaning of the query, so d stays small: deeper ones would be slow in ANY correct evaluator
		d := 1 + r.Intn(4)
		return "$" + rep("..[?(@", d) + ".a" + rep(")]", d)
	}
}
