package gen

import (
	"verif/internal/spec"
)

func name(k string) spec.Step          { return spec.Step{Kind: spec.KName, Key: k} }
func bname(k string) spec.Step         { return spec.Step{Kind: spec.KName, Key: k, Bracket: true} }
func idx(n int64) spec.Sub             { return spec.Sub{Kind: spec.SIndex, N: n} }
func slice(s, e, t *int64) spec.Sub    { return spec.Sub{Kind: spec.SSlice, Start: s, End: e, Step: t} }
func union(subs ...spec.Sub) spec.Step { return spec.Step{Kind: spec.KUnion, Subs: subs} }
func multi(items ...spec.MItem) spec.Step {
	return spec.Step{Kind: spec.KMulti, Items: items}
}
func filter(q *spec.Query) spec.Step { return spec.Step{Kind: spec.KFilter, Q: q} }
func atPath(steps ...spec.Step) *spec.Path {
	return &spec.Path{Root: '@', Steps: steps}
}
func rootPath(steps ...spec.Step) *spec.Path {
	return &spec.Path{Root: '$', Steps: steps}
}

var rec = spec.Step{Kind: spec.KRec}

// StepKindReps: one representative per step kind; a kind is one step or ".." plus its operand.
func StepKindReps() [][]spec.Step {
	k, w := spec.MItem{Key: "a"}, spec.MItem{Wild: true}
	exA := &spec.Query{Op: spec.QExist, P: atPath(name("a"))}
	eqA := &spec.Query{Op: spec.QCmp, Cmp: "==", LO: spec.Operand{P: atPath(name("a"))}, RO: NumLit(1, "")}
	exR := &spec.Query{Op: spec.QExist, P: rootPath(name("a"))}
	return [][]spec.Step{
		{name("a")}, {bname("a")}, {{Kind: spec.KWild}}, {{Kind: spec.KWild, Bracket: true}},
		{multi(k, spec.MItem{Key: "b"})}, {multi(k, w)}, {multi(w, w)},
		{union(idx(0))}, {union(idx(-1))}, {union(idx(0), idx(1))},
		{union(slice(ip(1), nil, nil))}, {union(slice(nil, nil, ip(-1)))}, {union(slice(ip(0), ip(2), nil))},
		{union(spec.Sub{Kind: spec.SWild}, idx(0))},
		{filter(exA)}, {filter(eqA)}, {filter(exR)},
		{rec, name("a")}, {rec, {Kind: spec.KWild}}, {rec, union(idx(0))}, {rec, multi(k, spec.MItem{Key: "b"})},
		{rec, multi(w, w)}, {rec, filter(exA)}, {rec, union(slice(ip(0), ip(2), nil))},
	}
}

// FuncSuffixes: trailing function combinations (f = filter function, g = aggregate).
func FuncSuffixes(f, g string) [][]string {
	return [][]string{nil, {f}, {g}, {f, g}, {g, f}, {g, g}}
}

// SysPaths enumerates every sequence of at most maxLen step kinds; sequences of
// at most fnLen kinds are additionally combined with every function suffix.
func SysPaths(maxLen, fnLen int, f, g string) []*spec.Path {
	reps := StepKindReps()
	var out []*spec.Path
	var recur func(prefix []spec.Step, n int)
	recur = func(prefix []spec.Step, n int) {
		sufs := [][]string{nil}
		if n <= fnLen {
			sufs = FuncSuffixes(f, g)
		}
		for _, suf := range sufs {
			out = append(out, &spec.Path{Root: '$', Steps: append([]spec.Step{}, prefix...), Funcs: suf})
		}
		if n == maxLen {
			return
		}
		for _, r := range reps {
			recur(append(append([]spec.Step{}, prefix...), r...), n+1)
		}
	}
	recur(nil, 0)
	return out
}

// OperandReps: one representative per operand kind of a comparison.
func OperandReps(f, g string) []spec.Operand {
	return []spec.Operand{
		NumLit(1, ""), StrLit("a", false), {IsLit: true, Lit: true, LitText: "true"}, {IsLit: true, Lit: nil, LitText: "null"},
		{P: atPath()}, {P: atPath(name("a"))}, {P: atPath(union(idx(0)))},
		{P: &spec.Path{Root: '@', Steps: []spec.Step{name("a")}, Funcs: []string{f}}},
		{P: &spec.Path{Root: '@', Steps: []spec.Step{{Kind: spec.KWild}}, Funcs: []string{g}}},
		{P: rootPath(name("x"))}, {P: rootPath(name("x"), union(idx(0)))},
		{P: &spec.Path{Root: '$', Steps: []spec.Step{name("x")}, Funcs: []string{f}}},
		{P: &spec.Path{Root: '$', Steps: []spec.Step{name("y")}, Funcs: []string{g}}},
	}
}

// ValidComparison reports whether `l op r` is accepted by the grammar and the
// semantic restrictions (so that it can be used where a parsable path is needed).
func ValidComparison(op string, l, r spec.Operand) bool {
	at := func(o spec.Operand) bool { return !o.IsLit && o.P.Root == '@' }
	if at(l) && at(r) {
		return false
	}
	if op != "==" && op != "!=" {
		for _, o := range []spec.Operand{l, r} {
			if o.IsLit {
				if _, ok := o.Lit.(float64); !ok {
					return false
				}
			}
		}
	}
	return true
}

// SysComparisons enumerates every comparison: 6 operators x operand kinds x both
// orders, plus the regex test for every path operand. onlyValid drops the
// combinations the library must reject.
func SysComparisons(f, g string, onlyValid bool) []*spec.Query {
	ops := OperandReps(f, g)
	var out []*spec.Query
	for _, op := range CmpOps {
		for _, l := range ops {
			for _, r := range ops {
				if onlyValid && !ValidComparison(op, l, r) {
					continue
				}
				out = append(out, &spec.Query{Op: spec.QCmp, Cmp: op, LO: l, RO: r})
			}
		}
	}
	for _, l := range ops {
		if l.IsLit {
			continue
		}
		for _, re := range []string{"a", "^1"} {
			out = append(out, &spec.Query{Op: spec.QRegex, P: l.P, Re: re})
		}
	}
	return out
}

// Atoms: eight filter atoms for the logical enumerator.
func Atoms() []*spec.Query {
	cmp := func(op string, l, r spec.Operand) *spec.Query {
		return &spec.Query{Op: spec.QCmp, Cmp: op, LO: l, RO: r}
	}
	a := spec.Operand{P: atPath(name("a"))}
	b := spec.Operand{P: atPath(name("b"))}
	x := spec.Operand{P: rootPath(name("x"))}
	return []*spec.Query{
		{Op: spec.QExist, P: atPath(name("a"))},
		{Op: spec.QExist, P: rootPath(name("x"))},
		{Op: spec.QExist, P: rootPath(name("nope"))},
		cmp("==", a, NumLit(1, "")),
		cmp(">", b, NumLit(1, "")),
		cmp("!=", a, x),
		cmp("==", x, NumLit(1, "")),
		{Op: spec.QRegex, P: atPath(name("a")), Re: "a"},
	}
}

// SysLogical enumerates A&&B, A||B, !path, (A), and one level of nesting over the atoms.
func SysLogical() []*spec.Query {
	atoms := Atoms()
	var out []*spec.Query
	for _, a := range atoms {
		out = append(out, a, &spec.Query{Op: spec.QParen, L: a})
		if a.Op == spec.QExist {
			out = append(out, &spec.Query{Op: spec.QNot, P: a.P})
		}
		for _, b := range atoms {
			and := &spec.Query{Op: spec.QAnd, L: a, R: b}
			or := &spec.Query{Op: spec.QOr, L: a, R: b}
			out = append(out, and, or)
		}
	}
	// depth 2: (A op B) op C for a few C
	for i, a := range atoms {
		b := atoms[(i+3)%len(atoms)]
		for _, c := range atoms[:4] {
			out = append(out,
				&spec.Query{Op: spec.QOr, L: &spec.Query{Op: spec.QAnd, L: a, R: b}, R: c},
				&spec.Query{Op: spec.QAnd, L: &spec.Query{Op: spec.QParen, L: &spec.Query{Op: spec.QOr, L: a, R: b}}, R: c},
				&spec.Query{Op: spec.QAnd, L: c, R: &spec.Query{Op: spec.QOr, L: a, R: b}},
			)
		}
	}
	return out
}

// FilterDocs: documents whose members hit, miss or mistype the operand paths
// used by the systematic comparison / logical enumerators (.a, .b, [0], $.x, $.y).
var FilterDocs = []string{
	`[{"a":1,"b":2},{"a":2,"b":1},{"a":"a"},{"b":1.5},{"a":null},{"a":true,"b":"a"},[1,2],["a"],1,"a",null,true,{}]`,
	`{"x":1,"y":[1,2],"a":{"a":1,"b":2},"b":{"a":"a","b":0},"c":[1],"d":"a1","e":1}`,
	`{"x":"a","y":[],"m":[1,"a",true,null,{"a":1},{"a":"a"},[1],["a"],[[1]]]}`,
	`{"x":[1,2],"y":{"a":1},"k1":{"a":[1,2]},"k2":{"a":1,"b":3},"k3":1}`,
	`[{"a":1},{"a":1,"b":2}]`,
	`[[1],[2],[1,2]]`,
	`{"x":true,"m":true,"n":{"a":true}}`,
	`{"x":null,"y":[null],"m":null,"n":{"a":null},"o":[null]}`,
	`[]`, `{}`,
}
