// Package harness runs property monitors: a parent process shards a
// deterministic case list over expendable worker processes, observes their
// exit status / progress log (crash and hang detection with re-confirmation in
// isolation), merges what the monitors observed and writes evidence, replay
// files and the VIOLATION / KNOWN-FINDING lines.
package harness

import (
	"encoding/binary"
	"encoding/json"
	"fmt"
	"hash/fnv"
	"math/rand"
	"os"
	"sort"
	"sync"
)

// Check describes one property monitor.
type Check struct {
	ID          string
	Level       string // evidence level: exploration | translation_validation
	Rule        string // how cases are generated and what makes one non-trivial
	Assumptions []string
	Plan        func(tier string, seed int64) *Plan
}

// Plan is the deterministic case list of one (tier, seed).
type Plan struct {
	N           int
	Run         func(c *Ctx, k int)
	Setup       func(c *Ctx)
	Finish      func(c *Ctx)
	Required    []string // coverage cells that must be hit, else the run is inconclusive
	Exhaustive  bool
	Race        bool // run the workers from the -race build
	NoRaceToo   bool // with Race: run the same plan once more from the plain build
	MaxShards   int  // 0 = default
	CaseTimeout int  // seconds, 0 = default 10
	Env         []string
	// AltToolchain: run the plan once more from bin/vcheck.alt (built with another Go toolchain) when present
	AltToolchain bool
}

// Violation is one refutation witness.
type Violation struct {
	Property string                 `json:"property"`
	Tier     string                 `json:"tier"`
	Seed     int64                  `json:"seed"`
	K        int                    `json:"k"`
	Key      string                 `json:"key"`
	Message  string                 `json:"message"`
	Detail   map[string]interface{} `json:"detail,omitempty"`
}

// Summary is what one worker reports.
type Summary struct {
	Shard        int                 `json:"shard"`
	Evaluations  int                 `json:"evaluations"`
	Cells        map[string]int      `json:"cells"`
	Tallies      map[string]int      `json:"tallies"`
	Samples      []interface{}       `json:"samples"`
	Violations   []Violation         `json:"violations"`
	Inconclusive []string            `json:"inconclusive"`
	Hooks        map[string]uint64   `json:"hooks,omitempty"`
	Notes        map[string][]string `json:"notes,omitempty"`
	Programs     int                 `json:"programs,omitempty"`
	Compared     int                 `json:"compared,omitempty"`
}

// Ctx is handed to the monitor for every case.
type Ctx struct {
	Prop string
	Tier string
	Seed int64
	K    int

	mu      sync.Mutex
	sum     Summary
	hashes  map[uint64]struct{}
	Verbose bool
	maxViol int
}

func newCtx(prop, tier string, seed int64, shard int) *Ctx {
	return &Ctx{Prop: prop, Tier: tier, Seed: seed,
		sum:     Summary{Shard: shard, Cells: map[string]int{}, Tallies: map[string]int{}, Hooks: map[string]uint64{}, Notes: map[string][]string{}},
		hashes:  map[uint64]struct{}{},
		maxViol: 25}
}

// CaseSeed derives the PRNG seed of case k from (seed, property, k) only, so a
// case can be regenerated alone whatever the sharding was.
func CaseSeed(seed int64, prop string, k int) int64 {
	h := fnv.New64a()
	var b [16]byte
	binary.LittleEndian.PutUint64(b[:8], uint64(seed))
	binary.LittleEndian.PutUint64(b[8:], uint64(k))
	h.Write(b[:])
	h.Write([]byte(prop))
	return int64(h.Sum64() >> 1)
}

// Rand returns the PRNG of the current case (optionally a named sub-stream).
func (c *Ctx) Rand(stream ...string) *rand.Rand {
	p := c.Prop
	for _, s := range stream {
		p += "/" + s
	}
	return rand.New(rand.NewSource(CaseSeed(c.Seed, p, c.K)))
}

func (c *Ctx) Cover(cell string) {
	c.mu.Lock()
	c.sum.Cells[cell]++
	c.mu.Unlock()
}

func (c *Ctx) Tally(name string) { c.TallyN(name, 1) }

func (c *Ctx) TallyN(name string, n int) {
	c.mu.Lock()
	c.sum.Tallies[name] += n
	c.mu.Unlock()
}

func (c *Ctx) Hook(name string, v uint64) {
	c.mu.Lock()
	c.sum.Hooks[name] += v
	c.mu.Unlock()
}

func (c *Ctx) HookMax(name string, v uint64) {
	c.mu.Lock()
	if v > c.sum.Hooks[name] {
		c.sum.Hooks[name] = v
	}
	c.mu.Unlock()
}

// Note keeps up to 6 distinct strings per topic (e.g. race report signatures).
func (c *Ctx) Note(topic, s string) {
	c.mu.Lock()
	defer c.mu.Unlock()
	for _, x := range c.sum.Notes[topic] {
		if x == s {
			return
		}
	}
	if len(c.sum.Notes[topic]) < 6 {
		c.sum.Notes[topic] = append(c.sum.Notes[topic], s)
	}
}

// Program counts one program compared by translation validation.
func (c *Ctx) Program(compared bool) {
	c.mu.Lock()
	c.sum.Programs++
	if compared {
		c.sum.Compared++
	}
	c.mu.Unlock()
}

// NonTrivial records the identity of a case that is non-trivial by the check's rule.
func (c *Ctx) NonTrivial(key string) {
	h := fnv.New64a()
	h.Write([]byte(key))
	c.mu.Lock()
	c.hashes[h.Sum64()] = struct{}{}
	c.mu.Unlock()
}

// Sample keeps a few literal cases for the evidence file.
func (c *Ctx) Sample(v interface{}) {
	c.mu.Lock()
	if len(c.sum.Samples) < 4 {
		c.sum.Samples = append(c.sum.Samples, v)
	}
	c.mu.Unlock()
}

func (c *Ctx) WantSample() bool {
	c.mu.Lock()
	defer c.mu.Unlock()
	return len(c.sum.Samples) < 4
}

// Violation records a refutation. key identifies the failing input (used for
// de-duplication and for matching KNOWN_FINDINGS entries).
func (c *Ctx) Violation(key, msg string, detail map[string]interface{}) {
	c.mu.Lock()
	defer c.mu.Unlock()
	c.sum.Tallies["violations_raw"]++
	for _, v := range c.sum.Violations {
		if v.Key == key {
			return
		}
	}
	if len(c.sum.Violations) >= c.maxViol {
		return
	}
	c.sum.Violations = append(c.sum.Violations, Violation{Property: c.Prop, Tier: c.Tier, Seed: c.Seed, K: c.K, Key: key, Message: msg, Detail: detail})
	if c.Verbose {
		b, _ := json.MarshalIndent(c.sum.Violations[len(c.sum.Violations)-1], "", "  ")
		fmt.Fprintf(os.Stderr, "violation: %s\n", b)
	}
}

func (c *Ctx) Inconclusive(msg string) {
	c.mu.Lock()
	defer c.mu.Unlock()
	for _, m := range c.sum.Inconclusive {
		if m == msg {
			return
		}
	}
	if len(c.sum.Inconclusive) < 20 {
		c.sum.Inconclusive = append(c.sum.Inconclusive, msg)
	}
}

func (c *Ctx) sortedHashes() []uint64 {
	out := make([]uint64, 0, len(c.hashes))
	for h := range c.hashes {
		out = append(out, h)
	}
	sort.Slice(out, func(i, j int) bool { return out[i] < out[j] })
	return out
}

var registry = map[string]*Check{}

// Register adds a check to the registry (called from package checks' init).
func Register(c *Check) {
	if _, dup := registry[c.ID]; dup {
		panic("duplicate check " + c.ID)
	}
	registry[c.ID] = c
}

func Lookup(id string) *Check { return registry[id] }

func IDs() []string {
	var out []string
	for id := range registry {
		out = append(out, id)
	}
	sort.Strings(out)
	return out
}
