package harness

import (
	"bufio"
	"crypto/sha1"
	"encoding/binary"
	"encoding/json"
	"fmt"
	"os"
	"os/exec"
	"path/filepath"
	"runtime"
	"sort"
	"strconv"
	"strings"
	"sync"
	"syscall"
	"time"
)

// Root is /verif (directory holding MANIFEST.json, evidence/, replay/, bin/).
var Root = func() string {
	if r := os.Getenv("VERIF_ROOT"); r != "" {
		return r
	}
	return "/verif"
}()

type knownFinding struct {
	Property string
	Key      string
	Text     string
}

// loadKnownFindings reads KNOWN_FINDINGS.txt: lines
//
//	finding: property=<id> key=<violation key, quoted with strconv.Quote> <free text>
//	fixed: property=<id> <commit> <what failed>          (documentation only, suppresses nothing)
func loadKnownFindings() []knownFinding {
	f, err := os.Open(filepath.Join(Root, "KNOWN_FINDINGS.txt"))
	if err != nil {
		return nil
	}
	defer f.Close()
	var out []knownFinding
	sc := bufio.NewScanner(f)
	sc.Buffer(make([]byte, 1<<20), 1<<20)
	for sc.Scan() {
		line := strings.TrimSpace(sc.Text())
		if !strings.HasPrefix(line, "finding:") {
			continue
		}
		rest := strings.TrimSpace(strings.TrimPrefix(line, "finding:"))
		var kf knownFinding
		if !strings.HasPrefix(rest, "property=") {
			continue
		}
		sp := strings.IndexByte(rest, ' ')
		if sp < 0 {
			continue
		}
		kf.Property = strings.TrimPrefix(rest[:sp], "property=")
		rest = strings.TrimSpace(rest[sp:])
		if !strings.HasPrefix(rest, "key=") {
			continue
		}
		q, err := strconv.QuotedPrefix(rest[4:])
		if err != nil {
			continue
		}
		kf.Key, _ = strconv.Unquote(q)
		kf.Text = strings.TrimSpace(rest[4+len(q):])
		out = append(out, kf)
	}
	return out
}

type workerResult struct {
	sum     *Summary
	hashes  []uint64
	crashes []Violation
	incon   []string
	evals   int
}

type runner struct {
	chk   *Check
	plan  *Plan
	tier  string
	seed  int64
	dir   string
	bin   string
	label string
}

func (r *runner) spawn(tag string, shard, nshards, only, from, caseTimeout int, overall time.Duration) (exit int, killed bool) {
	args := []string{"worker", "-prop", r.chk.ID, "-tier", r.tier, "-seed", strconv.FormatInt(r.seed, 10),
		"-shard", strconv.Itoa(shard), "-nshards", strconv.Itoa(nshards), "-dir", r.dir, "-tag", tag,
		"-only", strconv.Itoa(only), "-from", strconv.Itoa(from), "-case-timeout", strconv.Itoa(caseTimeout)}
	cmd := exec.Command(r.bin, args...)
	// stdout/stderr to files, never pipes: a dying child must leave its dump behind
	errf, _ := os.OpenFile(filepath.Join(r.dir, tag+".stderr"), os.O_CREATE|os.O_WRONLY|os.O_APPEND, 0o644)
	defer errf.Close()
	cmd.Stdout = errf
	cmd.Stderr = errf
	cmd.Env = append(os.Environ(), r.plan.Env...)
	cmd.Env = append(cmd.Env, "VERIF_WORKDIR="+r.dir, "VERIF_TAG="+tag)
	if r.label == "race" || strings.HasSuffix(r.bin, ".race") {
		// never halt on the first report: later reports and the result oracle still count
		cmd.Env = append(cmd.Env, "GORACE=halt_on_error=0 exitcode=0 log_path="+filepath.Join(r.dir, tag+".race"))
	}
	if err := cmd.Start(); err != nil {
		fmt.Fprintln(errf, "spawn:", err)
		return 127, false
	}
	done := make(chan error, 1)
	go func() { done <- cmd.Wait() }()
	// Parent-side stall detection, independent of the worker's own watchdog (which a wedged
	// runtime can starve): if the progress log stops growing for longer than the per-case limit
	// plus a margin, the worker is killed and the open case is treated as a hang ("H k").
	stalled := make(chan struct{})
	stopMon := make(chan struct{})
	defer close(stopMon)
	go func() {
		limit := caseTimeout
		if limit == 0 {
			limit = r.plan.CaseTimeout
		}
		if limit == 0 {
			limit = 10
		}
		stall := time.Duration(limit+45) * time.Second
		logp := filepath.Join(r.dir, tag+".log")
		lastSize, lastChange := int64(-1), time.Now()
		for {
			select {
			case <-stopMon:
				return
			case <-time.After(2 * time.Second):
			}
			var size int64
			if fi, err := os.Stat(logp); err == nil {
				size = fi.Size()
			}
			if size != lastSize {
				lastSize, lastChange = size, time.Now()
				continue
			}
			if time.Since(lastChange) > stall {
				if f, err := os.OpenFile(logp, os.O_WRONLY|os.O_APPEND, 0o644); err == nil {
					k, _, _ := lastOpen(logp)
					fmt.Fprintf(f, "H %d\n", k)
					f.Close()
				}
				close(stalled)
				return
			}
		}
	}()
	select {
	case <-stalled:
		cmd.Process.Signal(syscall.SIGQUIT)
		select {
		case <-done:
		case <-time.After(5 * time.Second):
			cmd.Process.Kill()
			<-done
		}
		return 3, false
	case err := <-done:
		if err == nil {
			return 0, false
		}
		if ee, ok := err.(*exec.ExitError); ok {
			if ws, ok := ee.Sys().(syscall.WaitStatus); ok && ws.Signaled() {
				return 128 + int(ws.Signal()), false
			}
			return ee.ExitCode(), false
		}
		return 126, false
	case <-time.After(overall):
		cmd.Process.Signal(syscall.SIGQUIT)
		select {
		case <-done:
		case <-time.After(10 * time.Second):
			cmd.Process.Kill()
			<-done
		}
		return -1, true
	}
}

// lastOpen returns the case that was begun but not ended in a progress log,
// the marker (B, H, M) that mentions it last, and the number of completed cases.
func lastOpen(path string) (k int, marker byte, ended int) {
	k = -1
	f, err := os.Open(path)
	if err != nil {
		return
	}
	defer f.Close()
	sc := bufio.NewScanner(f)
	open := -1
	for sc.Scan() {
		line := sc.Text()
		if len(line) < 3 {
			continue
		}
		n, err := strconv.Atoi(line[2:])
		if err != nil {
			continue
		}
		switch line[0] {
		case 'B':
			open, marker = n, 'B'
		case 'E':
			if n == open {
				open = -1
			}
			ended++
		case 'H', 'M', 'S':
			// a watchdog marker is final: the process is on its way out (it still writes a goroutine dump, which takes a
			// while on a loaded machine), and the case may happen to finish - and the next one to begin - in the meantime
			return n, line[0], ended
		}
	}
	return open, marker, ended
}

func tail(path string, n int) string {
	b, err := os.ReadFile(path)
	if err != nil {
		return ""
	}
	if len(b) > n {
		b = b[len(b)-n:]
	}
	return string(b)
}

func head(path string, n int) string {
	b, err := os.ReadFile(path)
	if err != nil {
		return ""
	}
	if len(b) > n {
		b = b[:n]
	}
	return string(b)
}

func (r *runner) readSummary(tag string, res *workerResult) bool {
	b, err := os.ReadFile(filepath.Join(r.dir, tag+".json"))
	if err != nil {
		return false
	}
	var s Summary
	if json.Unmarshal(b, &s) != nil {
		return false
	}
	if res.sum == nil {
		res.sum = &s
	} else {
		mergeSummary(res.sum, &s)
	}
	hb, _ := os.ReadFile(filepath.Join(r.dir, tag+".hashes"))
	for i := 0; i+8 <= len(hb); i += 8 {
		res.hashes = append(res.hashes, binary.LittleEndian.Uint64(hb[i:]))
	}
	return true
}

func mergeSummary(dst, src *Summary) {
	dst.Evaluations += src.Evaluations
	dst.Programs += src.Programs
	dst.Compared += src.Compared
	if dst.Cells == nil {
		dst.Cells = map[string]int{}
	}
	for k, v := range src.Cells {
		dst.Cells[k] += v
	}
	if dst.Tallies == nil {
		dst.Tallies = map[string]int{}
	}
	for k, v := range src.Tallies {
		dst.Tallies[k] += v
	}
	if dst.Hooks == nil {
		dst.Hooks = map[string]uint64{}
	}
	for k, v := range src.Hooks {
		if strings.HasPrefix(k, "max_") {
			if v > dst.Hooks[k] {
				dst.Hooks[k] = v
			}
		} else {
			dst.Hooks[k] += v
		}
	}
	if dst.Notes == nil {
		dst.Notes = map[string][]string{}
	}
	for k, v := range src.Notes {
		for _, s := range v {
			dup := false
			for _, x := range dst.Notes[k] {
				dup = dup || x == s
			}
			if !dup && len(dst.Notes[k]) < 8 {
				dst.Notes[k] = append(dst.Notes[k], s)
			}
		}
	}
	if len(dst.Samples) < 8 {
		dst.Samples = append(dst.Samples, src.Samples...)
		if len(dst.Samples) > 8 {
			dst.Samples = dst.Samples[:8]
		}
	}
	dst.Violations = append(dst.Violations, src.Violations...)
	dst.Inconclusive = append(dst.Inconclusive, src.Inconclusive...)
}

// runShard runs one shard to completion, following the crash / hang protocol.
func (r *runner) runShard(shard, nshards int) *workerResult {
	res := &workerResult{}
	from := 0
	overall := 25 * time.Minute
	if r.tier == "thorough" {
		overall = 4 * time.Hour
	}
	for attempt := 0; attempt < 12; attempt++ {
		tag := fmt.Sprintf("%s-s%d-a%d", r.label, shard, attempt)
		exit, killed := r.spawn(tag, shard, nshards, -1, from, 0, overall)
		logp := filepath.Join(r.dir, tag+".log")
		if exit == 0 && !killed {
			if !r.readSummary(tag, res) {
				res.incon = append(res.incon, fmt.Sprintf("shard %d: worker exited 0 without a summary", shard))
			}
			return res
		}
		k, marker, ended := lastOpen(logp)
		res.evals += ended
		if killed {
			res.incon = append(res.incon, fmt.Sprintf("shard %d: overall watchdog (%s) fired at case %d; stderr tail: %s", shard, overall, k, tail(filepath.Join(r.dir, tag+".stderr"), 400)))
			return res
		}
		if k < 0 && (exit == 3 || exit == 4 || exit == 5) {
			// our own watchdogs' exit codes without an open case: Setup / Finish of the harness was slow (or ran out of memory) on a
			// loaded machine; nothing the library did is being judged here
			res.incon = append(res.incon, fmt.Sprintf("shard %d: a harness watchdog (exit %d) fired outside any case; the rest of the shard was not executed", shard, exit))
			return res
		}
		if k < 0 {
			// died outside any case (setup/finish): no culprit to isolate
			res.crashes = append(res.crashes, Violation{Property: r.chk.ID, Tier: r.tier, Seed: r.seed, K: -1,
				Key:     fmt.Sprintf("worker-died-outside-case exit=%d", exit),
				Message: fmt.Sprintf("worker process died outside a case (exit %d)", exit),
				Detail:  map[string]interface{}{"stderr_head": head(filepath.Join(r.dir, tag+".stderr"), 3000)}})
			return res
		}
		// confirm in isolation
		switch marker {
		case 'S':
			res.incon = append(res.incon, fmt.Sprintf("case %d exceeded its time limit OUTSIDE the library (slow generator / oracle of the harness): skipped, no verdict", k))
		case 'H':
			hung := 0
			for i := 0; i < 2; i++ {
				itag := fmt.Sprintf("%s-iso%d-%d", r.label, k, i)
				isoLimit := 45
				if r.plan.CaseTimeout > isoLimit {
					isoLimit = r.plan.CaseTimeout // a plan whose cases legitimately run long keeps its own limit
				}
				e, kl := r.spawn(itag, 0, 1, k, 0, isoLimit, 6*time.Minute)
				if e == 3 || kl {
					hung++
				} else if e == 5 {
					break // slow outside the library when run alone: not a library hang
				} else {
					if e == 0 {
						r.readSummary(itag, res) // whatever the isolated run observed counts
					}
					break
				}
			}
			if hung == 2 {
				res.crashes = append(res.crashes, Violation{Property: r.chk.ID, Tier: r.tier, Seed: r.seed, K: k,
					Key:     fmt.Sprintf("hang case=%d", k),
					Message: "a library call did not return: the case exceeded its time limit and, re-run alone twice in fresh processes, 45 s inside one library call each time",
					Detail:  map[string]interface{}{"stderr_head": head(filepath.Join(r.dir, tag+".stderr"), 3000)}})
			} else {
				res.incon = append(res.incon, fmt.Sprintf("case %d exceeded its time limit under load but completed when re-run alone", k))
			}
		default:
			itag := fmt.Sprintf("%s-iso%d", r.label, k)
			e, kl := r.spawn(itag, 0, 1, k, 0, 60, 3*time.Minute)
			switch {
			case e == 0 && !kl:
				r.readSummary(itag, res)
				res.incon = append(res.incon, fmt.Sprintf("worker died (exit %d) in case %d but the case completes when re-run alone; stderr head: %s", exit, k, head(filepath.Join(r.dir, tag+".stderr"), 400)))
			default:
				what := "crashed the process"
				if marker == 'M' || e == 4 {
					what = "exhausted memory"
				}
				res.crashes = append(res.crashes, Violation{Property: r.chk.ID, Tier: r.tier, Seed: r.seed, K: k,
					Key:     fmt.Sprintf("crash case=%d", k),
					Message: fmt.Sprintf("a library call %s (worker exit %d, again exit %d when the case was re-run alone in a fresh process)", what, exit, e),
					Detail:  map[string]interface{}{"stderr_head": head(filepath.Join(r.dir, itag+".stderr"), 3000)}})
			}
		}
		from = k + 1
		if len(res.crashes) >= 2 {
			// two confirmed crashes / hangs in one shard: the verdict is in, do not spend an hour confirming more
			res.incon = append(res.incon, fmt.Sprintf("shard %d: stopped after %d confirmed crashes/hangs (remaining cases from %d on not executed)", shard, len(res.crashes), from))
			return res
		}
	}
	res.incon = append(res.incon, fmt.Sprintf("shard %d: gave up after 12 worker restarts", shard))
	return res
}

// Evidence is the file written to evidence/<id>.json.
type Evidence struct {
	PropertyID  string                 `json:"property_id"`
	Tier        string                 `json:"tier"`
	Seed        int64                  `json:"seed"`
	Level       string                 `json:"level"`
	Coverage    map[string]interface{} `json:"coverage"`
	Assumptions []string               `json:"assumptions"`
	WallS       float64                `json:"wall_s"`
	Violations  int                    `json:"violations"`
	Verdict     string                 `json:"verdict"`
}

// RunMain is `vcheck run <id> <tier>`.
func RunMain(id, tier string) int {
	start := time.Now()
	chk := Lookup(id)
	if chk == nil {
		fmt.Fprintln(os.Stderr, "unknown property", id, "known:", IDs())
		return 2
	}
	seed := int64(1)
	if s := os.Getenv("VERIF_SEED"); s != "" {
		if v, err := strconv.ParseInt(s, 10, 64); err == nil {
			seed = v
		}
	}
	plan := chk.Plan(tier, seed)
	dir := filepath.Join(Root, "work", id)
	os.RemoveAll(dir)
	if err := os.MkdirAll(dir, 0o755); err != nil {
		fmt.Fprintln(os.Stderr, err)
		return 2
	}
	os.MkdirAll(filepath.Join(Root, "evidence"), 0o755)
	os.MkdirAll(filepath.Join(Root, "replay"), 0o755)

	type pass struct {
		bin, label string
	}
	passes := []pass{{filepath.Join(Root, "bin", "vcheck"), "plain"}}
	if plan.Race {
		passes = []pass{{filepath.Join(Root, "bin", "vcheck.race"), "race"}}
		if plan.NoRaceToo {
			passes = append(passes, pass{filepath.Join(Root, "bin", "vcheck"), "plain"})
		}
	}
	if plan.AltToolchain {
		if _, err := os.Stat(filepath.Join(Root, "bin", "vcheck.alt")); err == nil {
			passes = append(passes, pass{filepath.Join(Root, "bin", "vcheck.alt"), "alt-toolchain"})
		}
	}
	nshards := runtime.NumCPU()
	if nshards > 16 {
		nshards = 16
	}
	if plan.MaxShards > 0 && nshards > plan.MaxShards {
		nshards = plan.MaxShards
	}
	if nshards > plan.N {
		nshards = plan.N
	}
	if nshards < 1 {
		nshards = 1
	}

	total := &Summary{Cells: map[string]int{}, Tallies: map[string]int{}, Hooks: map[string]uint64{}, Notes: map[string][]string{}}
	var hashes []uint64 // all shards' non-trivial case hashes; distinct ones are counted after sorting (no map: tens of millions of entries in thorough runs)
	var incon []string
	var viols []Violation
	for _, p := range passes {
		r := &runner{chk: chk, plan: plan, tier: tier, seed: seed, dir: dir, bin: p.bin, label: p.label}
		results := make([]*workerResult, nshards)
		var wg sync.WaitGroup
		for s := 0; s < nshards; s++ {
			wg.Add(1)
			go func(s int) {
				defer wg.Done()
				results[s] = r.runShard(s, nshards)
			}(s)
		}
		wg.Wait()
		for _, res := range results {
			if res.sum != nil {
				mergeSummary(total, res.sum)
			}
			total.Evaluations += res.evals
			hashes = append(hashes, res.hashes...)
			incon = append(incon, res.incon...)
			viols = append(viols, res.crashes...)
		}
	}
	viols = append(viols, total.Violations...)
	incon = append(incon, total.Inconclusive...)

	// required coverage
	for _, cell := range plan.Required {
		if total.Cells[cell] == 0 {
			incon = append(incon, "required coverage cell never hit: "+cell)
		}
	}
	if total.Evaluations == 0 {
		incon = append(incon, "no case was executed")
	}

	// known findings / violations
	known := loadKnownFindings()
	seen := map[string]bool{}
	exit := 0
	nviol := 0
	sort.SliceStable(viols, func(i, j int) bool { return viols[i].K < viols[j].K })
	for _, v := range viols {
		if seen[v.Key] {
			continue
		}
		seen[v.Key] = true
		isKnown := false
		for _, kf := range known {
			if kf.Property == id && kf.Key == v.Key {
				fmt.Printf("KNOWN-FINDING: property=%s %s\n", id, kf.Text)
				isKnown = true
			}
		}
		if isKnown {
			continue
		}
		nviol++
		if nviol > 20 {
			continue
		}
		sum := sha1.Sum([]byte(v.Key))
		path := filepath.Join(Root, "replay", fmt.Sprintf("%s-%x.json", id, sum[:6]))
		b, _ := json.MarshalIndent(v, "", "  ")
		os.WriteFile(path, b, 0o644)
		fmt.Printf("VIOLATION property=%s replay=%s\n", id, path)
		fmt.Printf("  %s\n  key: %s\n", v.Message, truncate(v.Key, 600))
		exit = 1
	}

	// evidence
	sort.Slice(hashes, func(i, j int) bool { return hashes[i] < hashes[j] })
	distinct := 0
	for i, h := range hashes {
		if i == 0 || h != hashes[i-1] {
			distinct++
		}
	}
	samples := total.Samples
	if samples == nil {
		samples = []interface{}{}
	}
	cov := map[string]interface{}{
		"evaluations":         total.Evaluations,
		"distinct_nontrivial": distinct,
		"rule":                chk.Rule,
		"samples":             samples,
		"cells":               total.Cells,
		"tallies":             total.Tallies,
		"hooks":               total.Hooks,
		"inconclusive":        dedup(incon),
		"shards":              nshards,
	}
	if len(total.Notes) > 0 {
		cov["notes"] = total.Notes
	}
	if plan.Exhaustive {
		cov["exhaustive"] = true
	}
	if chk.Level == "translation_validation" {
		cov["programs"] = total.Programs
		cov["disagreements_checked"] = total.Compared
	}
	verdict := "held on what was observed"
	if exit != 0 {
		verdict = "violated"
	} else if len(incon) > 0 {
		verdict = "inconclusive in part (see coverage.inconclusive); no violation observed"
	}
	ev := Evidence{PropertyID: id, Tier: tier, Seed: seed, Level: chk.Level, Coverage: cov,
		Assumptions: chk.Assumptions, WallS: time.Since(start).Seconds(), Violations: nviol, Verdict: verdict}
	b, _ := json.MarshalIndent(&ev, "", " ")
	tmp := filepath.Join(Root, "evidence", id+".json.tmp")
	os.WriteFile(tmp, b, 0o644)
	os.Rename(tmp, filepath.Join(Root, "evidence", id+".json"))

	fmt.Printf("%s %s seed=%d: %d cases, %d distinct non-trivial, %d violation(s), %d inconclusive note(s), %.1fs\n",
		id, tier, seed, total.Evaluations, distinct, nviol, len(dedup(incon)), time.Since(start).Seconds())
	for _, m := range dedup(incon) {
		fmt.Printf("  inconclusive: %s\n", truncate(m, 300))
	}
	if exit == 0 {
		os.RemoveAll(dir)
	}
	return exit
}

func dedup(in []string) []string {
	out := []string{}
	seen := map[string]bool{}
	for _, s := range in {
		if !seen[s] {
			seen[s] = true
			out = append(out, s)
		}
	}
	return out
}

func truncate(s string, n int) string {
	if len(s) > n {
		return s[:n] + "…"
	}
	return s
}

// ReplayMain is `vcheck replay <file>`: re-executes exactly the recorded case.
func ReplayMain(path string) int {
	b, err := os.ReadFile(path)
	if err != nil {
		fmt.Fprintln(os.Stderr, err)
		return 2
	}
	var v Violation
	if err := json.Unmarshal(b, &v); err != nil {
		fmt.Fprintln(os.Stderr, err)
		return 2
	}
	chk := Lookup(v.Property)
	if chk == nil {
		fmt.Fprintln(os.Stderr, "unknown property", v.Property)
		return 2
	}
	if v.K < 0 {
		fmt.Println("the recorded event happened outside a case; re-run the whole check")
		return 2
	}
	plan := chk.Plan(v.Tier, v.Seed)
	dir, _ := os.MkdirTemp(filepath.Join(Root, "work"), "replay")
	defer os.RemoveAll(dir)
	bin := filepath.Join(Root, "bin", "vcheck")
	if plan.Race {
		bin = filepath.Join(Root, "bin", "vcheck.race")
	}
	r := &runner{chk: chk, plan: plan, tier: v.Tier, seed: v.Seed, dir: dir, bin: bin, label: "replay"}
	exit, killed := r.spawn("replay", 0, 1, v.K, 0, 60, 5*time.Minute)
	res := &workerResult{}
	if exit != 0 || killed {
		fmt.Printf("replay: worker exit=%d killed=%v\n%s\n", exit, killed, head(filepath.Join(dir, "replay.stderr"), 4000))
		fmt.Printf("VIOLATION property=%s replay=%s\n", v.Property, path)
		return 1
	}
	r.readSummary("replay", res)
	if res.sum != nil && len(res.sum.Violations) > 0 {
		for _, x := range res.sum.Violations {
			out, _ := json.MarshalIndent(x, "", "  ")
			fmt.Println(string(out))
		}
		fmt.Printf("VIOLATION property=%s replay=%s\n", v.Property, path)
		return 1
	}
	fmt.Println("replay: the case no longer violates the property")
	return 0
}
