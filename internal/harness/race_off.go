//go:build !race

package harness

const RaceEnabled = false
