//go:build race

package harness

// RaceEnabled reports whether this binary was built with the Go race detector.
const RaceEnabled = true
