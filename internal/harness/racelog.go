package harness

import (
	"os"
	"path/filepath"
	"regexp"
	"strconv"
	"strings"
)

// RaceReport is one "WARNING: DATA RACE" block of the race detector's log.
type RaceReport struct {
	Text      string
	Signature string   // outermost library frames of the two accesses, line numbers stripped
	InLibrary bool     // some frame is in the library under test
	Addrs     []uint64 // the racing memory addresses
}

var addrRe = regexp.MustCompile(`(?i)(?:read|write) at 0x([0-9a-f]+) by`)

var frameRe = regexp.MustCompile(`(?m)^  (\S+)\(\)\s*$`)

const libPrefix = "github.com/AsaiYusuke/jsonpath."

// ReadRaceReports parses the race log files this process has written so far
// (GORACE log_path=<dir>/<tag>.race is set by the parent).
func ReadRaceReports() []RaceReport {
	dir, tag := os.Getenv("VERIF_WORKDIR"), os.Getenv("VERIF_TAG")
	if dir == "" {
		return nil
	}
	files, _ := filepath.Glob(filepath.Join(dir, tag+".race.*"))
	var out []RaceReport
	for _, f := range files {
		b, err := os.ReadFile(f)
		if err != nil {
			continue
		}
		for _, blk := range strings.Split(string(b), "==================") {
			if !strings.Contains(blk, "WARNING: DATA RACE") {
				continue
			}
			r := RaceReport{Text: blk}
			for _, m := range addrRe.FindAllStringSubmatch(blk, -1) {
				if a, err := strconv.ParseUint(m[1], 16, 64); err == nil {
					r.Addrs = append(r.Addrs, a)
				}
			}
			// split into the access sections; take the outermost library frame of each
			var sig []string
			for _, sec := range strings.Split(blk, "\n\n") {
				if !(strings.Contains(sec, "Read at") || strings.Contains(sec, "Write at") || strings.Contains(sec, "Previous read") || strings.Contains(sec, "Previous write")) {
					continue
				}
				outer := ""
				for _, m := range frameRe.FindAllStringSubmatch(sec, -1) {
					if strings.HasPrefix(m[1], libPrefix) {
						outer = m[1]
						r.InLibrary = true
					}
				}
				inner := ""
				if ms := frameRe.FindAllStringSubmatch(sec, -1); len(ms) > 0 {
					inner = ms[0][1]
				}
				sig = append(sig, inner+"<-"+outer)
			}
			r.Signature = strings.Join(sig, " | ")
			out = append(out, r)
		}
	}
	return out
}
