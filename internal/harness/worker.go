package harness

import (
	"encoding/binary"
	"encoding/json"
	"flag"
	"fmt"
	"os"
	"path/filepath"
	"runtime"
	"runtime/debug"
	"runtime/pprof"
	"sync/atomic"
	"time"
)

// InLibraryFor is set by the monitors' library wrapper: how long a library call has been in progress.
var InLibraryFor func() time.Duration

// WorkerMain is `vcheck worker ...`: executes the cases of one shard.
// Progress protocol (file <dir>/<tag>.log): "B k" before case k, "E k" after
// it, "H k" when the in-process watchdog saw case k exceed its time limit.
func WorkerMain(args []string) int {
	fs := flag.NewFlagSet("worker", flag.ExitOnError)
	prop := fs.String("prop", "", "property id")
	tier := fs.String("tier", "quick", "tier")
	seed := fs.Int64("seed", 1, "seed")
	shard := fs.Int("shard", 0, "shard index")
	nshards := fs.Int("nshards", 1, "number of shards")
	dir := fs.String("dir", "", "work directory")
	tag := fs.String("tag", "w", "file tag")
	only := fs.Int("only", -1, "run only this case")
	from := fs.Int("from", 0, "skip cases below this index")
	caseTimeout := fs.Int("case-timeout", 0, "seconds per case (0: plan default)")
	verbose := fs.Bool("v", false, "verbose")
	fs.Parse(args)

	chk := Lookup(*prop)
	if chk == nil {
		fmt.Fprintln(os.Stderr, "unknown property", *prop)
		return 2
	}
	// a runaway recursion must die in milliseconds, not after eating 1 GB
	debug.SetMaxStack(64 << 20)

	plan := chk.Plan(*tier, *seed)
	ctx := newCtx(*prop, *tier, *seed, *shard)
	ctx.Verbose = *verbose

	logf, err := os.OpenFile(filepath.Join(*dir, *tag+".log"), os.O_CREATE|os.O_WRONLY|os.O_APPEND, 0o644)
	if err != nil {
		fmt.Fprintln(os.Stderr, err)
		return 2
	}
	defer logf.Close()

	limit := plan.CaseTimeout
	if limit == 0 {
		limit = 10
	}
	if *caseTimeout > 0 {
		limit = *caseTimeout
	}
	var curCase, curStart int64
	atomic.StoreInt64(&curCase, -1)
	go func() { // per-case watchdog
		for {
			time.Sleep(250 * time.Millisecond)
			k, st := atomic.LoadInt64(&curCase), atomic.LoadInt64(&curStart)
			if k >= 0 && time.Now().UnixNano()-st > int64(limit)*int64(time.Second) {
				// a hang verdict needs the time to have been spent INSIDE a library call; a slow generator or
				// oracle of the harness itself is reported as such (marker S) and is never a violation
				inLib := time.Duration(0)
				if InLibraryFor != nil {
					inLib = InLibraryFor()
				}
				marker, code := "H", 3
				if InLibraryFor != nil && inLib < time.Duration(limit)*time.Second/2 {
					marker, code = "S", 5
				}
				fmt.Fprintf(logf, "%s %d\n", marker, k)
				fmt.Fprintf(os.Stderr, "watchdog: case %d exceeded %ds (library call in progress for %s)\n", k, limit, inLib)
				pprof.Lookup("goroutine").WriteTo(os.Stderr, 2)
				os.Exit(code)
			}
		}
	}()
	go func() { // heap watchdog in its own goroutine: ReadMemStats stops the world and must not delay the time check
		var ms runtime.MemStats
		for {
			time.Sleep(2 * time.Second)
			runtime.ReadMemStats(&ms)
			if ms.HeapAlloc > 3<<30 {
				k := atomic.LoadInt64(&curCase)
				fmt.Fprintf(logf, "M %d\n", k)
				fmt.Fprintf(os.Stderr, "watchdog: heap %d bytes in case %d\n", ms.HeapAlloc, k)
				os.Exit(4)
			}
		}
	}()

	if plan.Setup != nil {
		ctx.K = -1
		plan.Setup(ctx)
	}
	buf := make([]byte, 0, 32)
	slowest, slowestK := time.Duration(0), -1
	runCase := func(k int) {
		ctx.K = k
		buf = append(buf[:0], 'B', ' ')
		buf = appendInt(buf, k)
		buf = append(buf, '\n')
		logf.Write(buf)
		atomic.StoreInt64(&curStart, time.Now().UnixNano())
		atomic.StoreInt64(&curCase, int64(k))
		func() {
			defer func() {
				if r := recover(); r != nil {
					// a panic escaping the monitor's own recover wrappers: report, never hide
					ctx.Violation(fmt.Sprintf("panic-in-case-%d", k), fmt.Sprintf("panic while running case: %v", r),
						map[string]interface{}{"stack": string(debug.Stack())})
				}
			}()
			plan.Run(ctx, k)
		}()
		atomic.StoreInt64(&curCase, -1)
		if d := time.Since(time.Unix(0, atomic.LoadInt64(&curStart))); d > slowest {
			slowest, slowestK = d, k
		}
		buf[0] = 'E'
		logf.Write(buf)
		ctx.sum.Evaluations++
	}
	if *only >= 0 {
		runCase(*only)
	} else {
		for k := *shard; k < plan.N; k += *nshards {
			if k < *from {
				continue
			}
			runCase(k)
		}
	}
	if plan.Finish != nil {
		ctx.K = -1
		plan.Finish(ctx)
	}
	if slowestK >= 0 {
		// observed, not judged: how far the slowest case of this shard was from the per-case limit
		ctx.HookMax("max_case_ms", uint64(slowest/time.Millisecond))
		if slowest > time.Duration(limit)*time.Second/4 {
			ctx.Note("slow-cases", fmt.Sprintf("case %d took %s (limit %ds)", slowestK, slowest.Round(time.Millisecond), limit))
		}
	}

	b, err := json.Marshal(&ctx.sum)
	if err != nil {
		// samples/details must be JSON-encodable; fall back to a summary without them
		ctx.sum.Samples = nil
		for i := range ctx.sum.Violations {
			ctx.sum.Violations[i].Detail = map[string]interface{}{"error": "detail not encodable: " + err.Error()}
		}
		b, _ = json.Marshal(&ctx.sum)
	}
	hs := ctx.sortedHashes()
	hb := make([]byte, 8*len(hs))
	for i, h := range hs {
		binary.LittleEndian.PutUint64(hb[8*i:], h)
	}
	if err := os.WriteFile(filepath.Join(*dir, *tag+".hashes"), hb, 0o644); err != nil {
		fmt.Fprintln(os.Stderr, err)
		return 2
	}
	tmp := filepath.Join(*dir, *tag+".json.tmp")
	if err := os.WriteFile(tmp, b, 0o644); err != nil {
		fmt.Fprintln(os.Stderr, err)
		return 2
	}
	os.Rename(tmp, filepath.Join(*dir, *tag+".json"))
	if *verbose {
		fmt.Fprintf(os.Stderr, "worker done: %d cases, %d violations\n", ctx.sum.Evaluations, len(ctx.sum.Violations))
	}
	return 0
}

func appendInt(b []byte, v int) []byte {
	if v == 0 {
		return append(b, '0')
	}
	var tmp [20]byte
	i := len(tmp)
	for v > 0 {
		i--
		tmp[i] = byte('0' + v%10)
		v /= 10
	}
	return append(b, tmp[i:]...)
}
