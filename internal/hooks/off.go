//go:build !verif

// Package hooks: fallback used when the library does not build with the
// `verif` tag (somebody edited /repo so that the hook file no longer compiles).
// All oracles still run; hook-based amplification is unavailable.
package hooks

const Available = false

type Options struct {
	PoisonContainers bool
	PoisonKeys       bool
	ScrambleKeys     int
	YieldEvery       uint32
	CaptureTree      bool
}

type Counters struct {
	ParseCalls, EvalCalls                            uint64
	MaxEvalInFlight                                  int64
	EvalOverlappedParse, ParseOverlappedEval, Yields uint64
	ContainersPoisoned, KeySlicesPoisoned            uint64
	KeySlicesScrambled, TreesCaptured                uint64
}

func Configure(Options)         {}
func ResetCounters()            {}
func Stats() Counters           { return Counters{} }
func Canary() string            { return "" }
func ParserResidue() string     { return "" }
func IsPoison(interface{}) bool { return false }

const PoisonKey = "\x00<<VERIF-POISON-KEY>>"

type Tree struct{}

func LastTree() Tree             { return Tree{} }
func (Tree) Fingerprint() string { return "" }
