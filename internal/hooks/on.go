//go:build verif

// Package hooks is the framework's view of the instrumentation compiled into
// the library under the build tag `verif` (see /repo/verif_hooks.go).
package hooks

import "github.com/AsaiYusuke/jsonpath"

const Available = true

type Options = jsonpath.VerifOptions
type Counters = jsonpath.VerifCounters

func Configure(o Options)   { jsonpath.VerifConfigure(o) }
func ResetCounters()        { jsonpath.VerifResetCounters() }
func Stats() Counters       { return jsonpath.VerifStats() }
func Canary() string        { return jsonpath.VerifCanary() }
func ParserResidue() string { return jsonpath.VerifParserResidue() }

// IsPoison reports whether v is the value written over released result buffers.
func IsPoison(v interface{}) bool { return v == jsonpath.VerifPoison }

const PoisonKey = jsonpath.VerifPoisonKey

// Tree is a handle on a captured syntax tree.
type Tree struct{ h jsonpath.VerifTreeHandle }

func LastTree() Tree               { return Tree{jsonpath.VerifLastTree()} }
func (t Tree) Fingerprint() string { return t.h.Fingerprint() }
