// Package lib wraps every call into the library under test: panics are
// recovered and reported as observations, results are compared with
// identity-aware equality, values are rendered for witnesses.
package lib

import (
	"encoding/json"
	"errors"
	"fmt"
	"reflect"
	"runtime/debug"
	"sort"
	"strings"
	"sync/atomic"
	"time"

	"github.com/AsaiYusuke/jsonpath"
	"verif/internal/harness"
	"verif/internal/hooks"
	"verif/internal/spec"
)

// Outcome is what one library call did.
type Outcome struct {
	Res   []interface{}
	Err   error
	Panic interface{}
	Stack string
}

type Func = func(src interface{}) ([]interface{}, error)

// In-library clock: lets the worker's watchdog tell a library call that does not return from a slow
// harness (generator, oracle). Every wrapped library call in progress occupies one slot holding its
// start time; InLibraryFor is the age of the OLDEST call still in progress (so many short concurrent
// calls never look like one long call).
var slots [256]int64
var slotHint uint32

func libEnter() int {
	if harness.RaceEnabled {
		// under the race detector the harness must not add synchronisation between goroutines
		// (an atomic on a shared word orders their library calls and hides races from the detector);
		// hang verdicts come from the plain build
		return -1
	}
	now := time.Now().UnixNano()
	i := int(atomic.AddUint32(&slotHint, 1)) % len(slots)
	for n := 0; n < len(slots); n++ {
		if atomic.CompareAndSwapInt64(&slots[i], 0, now) {
			return i
		}
		i = (i + 1) % len(slots)
	}
	return -1 // more than 256 concurrent calls: not tracked
}

func libExit(i int) {
	if i >= 0 {
		atomic.StoreInt64(&slots[i], 0)
	}
}

// InLibraryFor reports for how long the oldest library call still in progress has been running (0 if none).
func InLibraryFor() time.Duration {
	oldest := int64(0)
	for i := range slots {
		if t := atomic.LoadInt64(&slots[i]); t != 0 && (oldest == 0 || t < oldest) {
			oldest = t
		}
	}
	if oldest == 0 {
		return 0
	}
	return time.Duration(time.Now().UnixNano() - oldest)
}

func guard(o *Outcome) {
	if r := recover(); r != nil {
		o.Panic = r
		o.Stack = string(debug.Stack())
	}
}

func Retrieve(text string, src interface{}, cfg ...jsonpath.Config) (o Outcome) {
	defer libExit(libEnter())
	defer guard(&o)
	o.Res, o.Err = jsonpath.Retrieve(text, src, cfg...)
	return
}

type ParseOutcome struct {
	F     Func
	Err   error
	Panic interface{}
	Stack string
}

func Parse(text string, cfg ...jsonpath.Config) (o ParseOutcome) {
	defer libExit(libEnter())
	defer func() {
		if r := recover(); r != nil {
			o.Panic = r
			o.Stack = string(debug.Stack())
		}
	}()
	o.F, o.Err = jsonpath.Parse(text, cfg...)
	return
}

func Call(f Func, src interface{}) (o Outcome) {
	defer libExit(libEnter())
	defer guard(&o)
	o.Res, o.Err = f(src)
	return
}

// ErrString renders an error with its dynamic type.
func ErrString(err error) string {
	if err == nil {
		return "<nil>"
	}
	return fmt.Sprintf("%T|%s", err, err.Error())
}

// IsRuntimeErr: one of the three documented runtime error types.
func IsRuntimeErr(err error) bool {
	switch err.(type) {
	case jsonpath.ErrorMemberNotExist, jsonpath.ErrorTypeUnmatched, jsonpath.ErrorFunctionFailed:
		return true
	}
	return false
}

// IsSyntaxErr: one of the four documented syntax-check error types.
func IsSyntaxErr(err error) bool {
	switch err.(type) {
	case jsonpath.ErrorInvalidSyntax, jsonpath.ErrorInvalidArgument, jsonpath.ErrorFunctionNotFound, jsonpath.ErrorNotSupported:
		return true
	}
	return false
}

// Summary renders an outcome compactly for witnesses.
func (o Outcome) String() string {
	switch {
	case o.Panic != nil:
		return fmt.Sprintf("PANIC(%v)", o.Panic)
	case o.Err != nil:
		return "ERR(" + ErrString(o.Err) + ")"
	}
	return JS(o.Res)
}

// ---------- values

// Decode decodes JSON text, optionally with json.Number.
func Decode(s string, useNumber bool) interface{} {
	d := json.NewDecoder(strings.NewReader(s))
	if useNumber {
		d.UseNumber()
	}
	var v interface{}
	if err := d.Decode(&v); err != nil {
		panic(fmt.Sprintf("bad JSON %q: %v", s, err))
	}
	return v
}

// Clone deep-copies the JSON containers of v (leaves are shared).
func Clone(v interface{}) interface{} {
	switch t := v.(type) {
	case map[string]interface{}:
		m := make(map[string]interface{}, len(t))
		for k, x := range t {
			m[k] = Clone(x)
		}
		return m
	case []interface{}:
		l := make([]interface{}, len(t))
		for i, x := range t {
			l[i] = Clone(x)
		}
		return l
	}
	return v
}

// JS renders any value; JSON where possible, Go syntax for opaque leaves.
func JS(v interface{}) string {
	var b strings.Builder
	writeJS(&b, v, 0)
	return b.String()
}

func writeJS(b *strings.Builder, v interface{}, depth int) {
	if depth > 2000 {
		b.WriteString("<deep>")
		return
	}
	switch t := v.(type) {
	case nil:
		b.WriteString("null")
	case map[string]interface{}:
		ks := make([]string, 0, len(t))
		for k := range t {
			ks = append(ks, k)
		}
		sort.Strings(ks)
		b.WriteByte('{')
		for i, k := range ks {
			if i > 0 {
				b.WriteByte(',')
			}
			kb, _ := json.Marshal(k)
			b.Write(kb)
			b.WriteByte(':')
			writeJS(b, t[k], depth+1)
		}
		b.WriteByte('}')
	case []interface{}:
		b.WriteByte('[')
		for i, x := range t {
			if i > 0 {
				b.WriteByte(',')
			}
			writeJS(b, x, depth+1)
		}
		b.WriteByte(']')
	case string, bool, float64, json.Number:
		x, _ := json.Marshal(t)
		b.Write(x)
	case jsonpath.Accessor:
		b.WriteString("Accessor<")
		func() {
			defer func() {
				if r := recover(); r != nil {
					b.WriteString("Get panicked")
				}
			}()
			writeJS(b, t.Get(), depth+1)
		}()
		if t.Set == nil {
			b.WriteString(",Set=nil")
		}
		b.WriteString(">")
	default:
		if hooks.IsPoison(v) {
			b.WriteString(`"<<VERIF-POISON>>"`)
			return
		}
		rv := reflect.ValueOf(v)
		switch rv.Kind() {
		case reflect.Func, reflect.Chan, reflect.Ptr, reflect.UnsafePointer:
			fmt.Fprintf(b, "%T@%x", v, rv.Pointer())
		default:
			fmt.Fprintf(b, "%T(%+v)", v, v)
		}
	}
}

// Same is reflect.DeepEqual made identity-aware: funcs, chans and pointers are
// equal when they are the same object; json.Number compares as text.
func Same(a, b interface{}) bool {
	switch x := a.(type) {
	case map[string]interface{}:
		y, ok := b.(map[string]interface{})
		if !ok || len(x) != len(y) {
			return false
		}
		for k, v := range x {
			w, ok := y[k]
			if !ok || !Same(v, w) {
				return false
			}
		}
		return true
	case []interface{}:
		y, ok := b.([]interface{})
		if !ok || len(x) != len(y) {
			return false
		}
		for i := range x {
			if !Same(x[i], y[i]) {
				return false
			}
		}
		return true
	}
	if a == nil || b == nil {
		return a == nil && b == nil
	}
	ra, rb := reflect.ValueOf(a), reflect.ValueOf(b)
	if ra.Type() != rb.Type() {
		return false
	}
	switch ra.Kind() {
	case reflect.Func, reflect.Chan, reflect.UnsafePointer:
		return ra.Pointer() == rb.Pointer()
	case reflect.Ptr:
		return ra.Pointer() == rb.Pointer()
	}
	return reflect.DeepEqual(a, b)
}

func SameList(a, b []interface{}) bool {
	if len(a) != len(b) {
		return false
	}
	for i := range a {
		if !Same(a[i], b[i]) {
			return false
		}
	}
	return true
}

// HasPoison reports whether the hook poison value is reachable from v.
func HasPoison(v interface{}) bool {
	if !hooks.Available {
		return false
	}
	switch t := v.(type) {
	case map[string]interface{}:
		for k, x := range t {
			if k == hooks.PoisonKey || HasPoison(x) {
				return true
			}
		}
	case []interface{}:
		for _, x := range t {
			if HasPoison(x) {
				return true
			}
		}
	case string:
		return t == hooks.PoisonKey
	default:
		return hooks.IsPoison(v)
	}
	return false
}

// ---------- user functions

// FuncSet is a set of user functions usable both by the library and by SPEC.
type FuncSet struct {
	Filter map[string]func(interface{}) (interface{}, error)
	Aggr   map[string]func([]interface{}) (interface{}, error)
}

func (fs FuncSet) Config(accessor bool) jsonpath.Config {
	c := jsonpath.Config{}
	for n, f := range fs.Filter {
		c.SetFilterFunction(n, f)
	}
	for n, f := range fs.Aggr {
		c.SetAggregateFunction(n, f)
	}
	if accessor {
		c.SetAccessorMode()
	}
	return c
}

func (fs FuncSet) Spec() spec.Funcs { return spec.Funcs{Filter: fs.Filter, Aggr: fs.Aggr} }

func (fs FuncSet) FilterNames() []string {
	var out []string
	for n := range fs.Filter {
		out = append(out, n)
	}
	sort.Strings(out)
	return out
}

func (fs FuncSet) AggrNames() []string {
	var out []string
	for n := range fs.Aggr {
		out = append(out, n)
	}
	sort.Strings(out)
	return out
}

func num(v interface{}) (float64, bool) {
	switch t := v.(type) {
	case float64:
		return t, true
	case json.Number:
		f, err := t.Float64()
		return f, err == nil
	}
	return 0, false
}

var subLookup = func() func(interface{}) ([]interface{}, error) {
	f, err := jsonpath.Parse("$.a")
	if err != nil {
		panic(err)
	}
	return f
}()

// Std is the standard deterministic function set:
// filter functions  twice (numbers ×2, strings doubled, arrays doubled, error otherwise),
// ident, wrap (v -> [v]), nostr (error on strings, identity otherwise), pick (numbers > 1 of an array; a nil slice when none), sub (member a of the argument, looked up with the library; returns the library's own error);
// aggregates  count, first (error on empty), echo (a copy of its argument), keep (its argument itself), sum (error unless all numbers).
func Std() FuncSet {
	return FuncSet{
		Filter: map[string]func(interface{}) (interface{}, error){
			"twice": func(v interface{}) (interface{}, error) {
				if f, ok := num(v); ok {
					return f * 2, nil
				}
				switch t := v.(type) {
				case string:
					return t + t, nil
				case []interface{}:
					return append(append([]interface{}{}, t...), t...), nil
				}
				return nil, errors.New("twice: unsupported")
			},
			"ident": func(v interface{}) (interface{}, error) { return v, nil },
			"wrap":  func(v interface{}) (interface{}, error) { return []interface{}{v}, nil },
			"nostr": func(v interface{}) (interface{}, error) {
				if _, ok := v.(string); ok {
					return nil, errors.New("nostr: string")
				}
				return v, nil
			},
			// sub looks up member a of its argument WITH THE LIBRARY ITSELF (a function parsed once, so no lock is taken per
			// call) and returns that call's error verbatim: the error a user function returns can be one of the library's
			// own runtime errors
			"sub": func(v interface{}) (interface{}, error) {
				r, err := subLookup(v)
				if err != nil {
					return nil, err
				}
				return r[0], nil
			},
			// pick keeps the numbers > 1 of an array, built the usual Go way (var out; append): the result is a NIL
			// slice when nothing is kept - an array a decoder never produces; other values pass unchanged
			"pick": func(v interface{}) (interface{}, error) {
				l, ok := v.([]interface{})
				if !ok {
					return v, nil
				}
				var out []interface{}
				for _, x := range l {
					if f, ok := num(x); ok && f > 1 {
						out = append(out, x)
					}
				}
				return out, nil
			},
		},
		Aggr: map[string]func([]interface{}) (interface{}, error){
			"count": func(v []interface{}) (interface{}, error) { return float64(len(v)), nil },
			"first": func(v []interface{}) (interface{}, error) {
				if len(v) == 0 {
					return nil, errors.New("first: empty")
				}
				return v[0], nil
			},
			"echo": func(v []interface{}) (interface{}, error) { return append([]interface{}{}, v...), nil },
			// keep returns the very slice it was given: if that slice were a recycled scratch buffer of the
			// library, the result would change under the caller's feet (and show the hook's poison)
			"keep": func(v []interface{}) (interface{}, error) { return v, nil },
			"sum": func(v []interface{}) (interface{}, error) {
				s := 0.0
				for _, x := range v {
					f, ok := num(x)
					if !ok {
						return nil, errors.New("sum: not a number")
					}
					s += f
				}
				return s, nil
			},
		},
	}
}

// Recorder logs user function calls, one log per registered name.
type Recorder struct {
	Logs map[string][]string
	// Optional reports whether the call being made may legitimately be skipped.
	Optional func() bool
	// Opt holds, per name and per log entry, whether that call was optional.
	Opt  map[string][]bool
	Errs int
}

func NewRecorder() *Recorder {
	return &Recorder{Logs: map[string][]string{}, Opt: map[string][]bool{}}
}

func (r *Recorder) note(name, entry string) {
	r.Logs[name] = append(r.Logs[name], entry)
	r.Opt[name] = append(r.Opt[name], r.Optional != nil && r.Optional())
}

// Explains reports whether got can be obtained from the reference log of name
// by deleting only optional entries (order preserved).
func (r *Recorder) Explains(name string, got []string) bool {
	full, opt := r.Logs[name], r.Opt[name]
	// memo[i][j]: full[i:] explains got[j:]
	memo := map[[2]int]bool{}
	var rec func(i, j int) bool
	rec = func(i, j int) bool {
		if i == len(full) {
			return j == len(got)
		}
		k := [2]int{i, j}
		if v, ok := memo[k]; ok {
			return v
		}
		res := false
		if j < len(got) && full[i] == got[j] && rec(i+1, j+1) {
			res = true
		} else if opt[i] && rec(i+1, j) {
			res = true
		}
		memo[k] = res
		return res
	}
	return rec(0, 0)
}

// HasOptional reports whether the reference log of name contains optional calls.
func (r *Recorder) HasOptional(name string) bool {
	for _, o := range r.Opt[name] {
		if o {
			return true
		}
	}
	return false
}

func describe(v interface{}) string {
	return fmt.Sprintf("%T:%s", v, JS(v))
}

// Recording wraps every function of fs so that calls are logged in r.
func (fs FuncSet) Recording(r *Recorder) FuncSet {
	out := FuncSet{Filter: map[string]func(interface{}) (interface{}, error){}, Aggr: map[string]func([]interface{}) (interface{}, error){}}
	for n, f := range fs.Filter {
		n, f := n, f
		out.Filter[n] = func(v interface{}) (interface{}, error) {
			res, err := f(v)
			if err != nil {
				r.Errs++
				r.note(n, describe(v)+" -> error "+err.Error())
			} else {
				r.note(n, describe(v)+" -> "+describe(res))
			}
			return res, err
		}
	}
	for n, f := range fs.Aggr {
		n, f := n, f
		out.Aggr[n] = func(v []interface{}) (interface{}, error) {
			parts := make([]string, len(v))
			for i := range v {
				parts[i] = describe(v[i])
			}
			res, err := f(v)
			arg := "[" + strings.Join(parts, ", ") + "]"
			if err != nil {
				r.Errs++
				r.note(n, arg+" -> error "+err.Error())
			} else {
				r.note(n, arg+" -> "+describe(res))
			}
			return res, err
		}
	}
	return out
}

// Rename returns fs with every function also registered under extra names:
// alias[i] -> original name.
func (fs FuncSet) Alias(alias map[string]string) FuncSet {
	out := FuncSet{Filter: map[string]func(interface{}) (interface{}, error){}, Aggr: map[string]func([]interface{}) (interface{}, error){}}
	for n, f := range fs.Filter {
		out.Filter[n] = f
	}
	for n, f := range fs.Aggr {
		out.Aggr[n] = f
	}
	for a, orig := range alias {
		if f, ok := fs.Filter[orig]; ok {
			out.Filter[a] = f
		}
		if f, ok := fs.Aggr[orig]; ok {
			out.Aggr[a] = f
		}
	}
	return out
}

// HashCons returns v with every pair of structurally equal non-empty containers replaced by ONE shared
// map / slice (maximal sharing): the document is then a DAG, not a tree - the same container is reachable
// along several paths - while its JSON meaning is unchanged. shared reports how many containers were merged.
func HashCons(v interface{}) (out interface{}, shared int) {
	seen := map[string]interface{}{}
	var walk func(v interface{}) (interface{}, string)
	walk = func(v interface{}) (interface{}, string) {
		switch t := v.(type) {
		case map[string]interface{}:
			ks := make([]string, 0, len(t))
			for k := range t {
				ks = append(ks, k)
			}
			sort.Strings(ks)
			var b strings.Builder
			b.WriteByte('{')
			for _, k := range ks {
				nv, s := walk(t[k])
				t[k] = nv
				kb, _ := json.Marshal(k)
				b.Write(kb)
				b.WriteByte(':')
				b.WriteString(s)
				b.WriteByte(',')
			}
			b.WriteByte('}')
			s := b.String()
			if len(t) == 0 {
				return t, s
			}
			if prev, ok := seen[s]; ok {
				shared++
				return prev, s
			}
			seen[s] = t
			return t, s
		case []interface{}:
			var b strings.Builder
			b.WriteByte('[')
			for i := range t {
				nv, s := walk(t[i])
				t[i] = nv
				b.WriteString(s)
				b.WriteByte(',')
			}
			b.WriteByte(']')
			s := b.String()
			if len(t) == 0 {
				return t, s
			}
			if prev, ok := seen[s]; ok {
				shared++
				return prev, s
			}
			seen[s] = t
			return t, s
		}
		return v, fmt.Sprintf("%T:%s", v, JS(v))
	}
	out, _ = walk(v)
	return out, shared
}
