// Package p2a turns a parse tree produced by the grammar-file interpreter (pegi)
// into the specification's AST, so that SPEC can be run on ANY string the
// grammar derives - the suite's own paths, their mutations, token soup that
// happens to parse - not only on paths rendered from generated ASTs.
package p2a

import (
	"fmt"
	"strconv"
	"strings"
	"unicode/utf16"

	"verif/internal/pegi"
	"verif/internal/spec"
)

// Result of a conversion: the AST and, per step then per function, the text the
// library reports for it in runtime errors.
type Result struct {
	Path  *spec.Path
	Texts []string
}

type conv struct {
	m   *pegi.Matcher
	err error
}

func (c *conv) fail(format string, a ...interface{}) {
	if c.err == nil {
		c.err = fmt.Errorf(format, a...)
	}
}

func (c *conv) text(n *pegi.Node) string { return c.m.Text(n.Begin, n.End) }

func kid(n *pegi.Node, rule string) *pegi.Node {
	for _, k := range n.Kids {
		if k.Rule == rule {
			return k
		}
	}
	return nil
}

func kids(n *pegi.Node, rule string) []*pegi.Node {
	var out []*pegi.Node
	for _, k := range n.Kids {
		if k.Rule == rule {
			out = append(out, k)
		}
	}
	return out
}

// Convert parses s with the grammar and converts the tree. ok=false when the
// grammar does not derive the whole string.
func Convert(g *pegi.Grammar, s string) (*Result, bool, error) {
	m := pegi.NewMatcher(g, s)
	end, node, matched := m.MatchRule("jsonpath", 0)
	if !matched || end != len(m.In) {
		return nil, false, nil
	}
	c := &conv{m: m}
	p, texts := c.path(node, "rootNode")
	if c.err != nil {
		return nil, true, c.err
	}
	return &Result{Path: p, Texts: texts}, true, nil
}

// path converts a jsonpath / jsonpathParameter node.
func (c *conv) path(n *pegi.Node, rootRule string) (*spec.Path, []string) {
	p := &spec.Path{}
	var texts []string
	root := kid(n, rootRule)
	cont := kid(n, "continuedJsonpath")
	if root == nil || cont == nil || len(root.Kids) == 0 {
		c.fail("path node without root/continuation")
		return p, nil
	}
	switch r := root.Kids[0]; r.Rule {
	case "rootIdentifier":
		p.Root = '$'
	case "currentRootIdentifier":
		p.Root = '@'
	case "bracketNode":
		p.Root = 0
		p.Steps = append(p.Steps, c.bracket(r))
		texts = append(texts, c.text(r))
	case "dotChildIdentifier":
		p.Root = 0
		st, _ := c.dotChild(r)
		p.Steps = append(p.Steps, st)
		if st.Kind == spec.KWild {
			texts = append(texts, "*")
		} else {
			texts = append(texts, st.Key) // a bare dot child is reported unescaped
		}
	}
	for _, k := range cont.Kids {
		switch k.Rule {
		case "childNode":
			raw := c.text(k)
			switch {
			case strings.HasPrefix(raw, ".."):
				p.Steps = append(p.Steps, spec.Step{Kind: spec.KRec})
				texts = append(texts, "..")
				if b := kid(k, "bracketNode"); b != nil {
					p.Steps = append(p.Steps, c.bracket(b))
					texts = append(texts, c.text(b))
				} else if d := kid(k, "dotChildIdentifier"); d != nil {
					st, _ := c.dotChild(d)
					p.Steps = append(p.Steps, st)
					if st.Kind == spec.KWild {
						texts = append(texts, "*")
					} else {
						texts = append(texts, st.Key)
					}
				} else {
					c.fail("recursive child without operand")
				}
			case strings.HasPrefix(raw, "."):
				d := kid(k, "dotChildIdentifier")
				if d == nil {
					c.fail("dot child without identifier")
					break
				}
				st, _ := c.dotChild(d)
				p.Steps = append(p.Steps, st)
				texts = append(texts, raw)
			default:
				b := kid(k, "bracketNode")
				if b == nil {
					c.fail("child node of unknown shape %q", raw)
					break
				}
				p.Steps = append(p.Steps, c.bracket(b))
				texts = append(texts, c.text(b))
			}
		case "function":
			fn := kid(k, "functionName")
			if fn == nil {
				c.fail("function without name")
				break
			}
			p.Funcs = append(p.Funcs, c.text(fn))
			texts = append(texts, c.text(k))
		}
	}
	return p, texts
}

// unescapePairs removes the backslash of every backslash pair (`\x` -> `x`).
func unescapePairs(s string) string {
	var b strings.Builder
	rs := []rune(s)
	for i := 0; i < len(rs); i++ {
		if rs[i] == '\\' && i+1 < len(rs) {
			i++
		}
		b.WriteRune(rs[i])
	}
	return b.String()
}

func (c *conv) dotChild(d *pegi.Node) (spec.Step, bool) {
	if len(d.Kids) > 0 && d.Kids[0].Rule == "wildcardIdentifier" {
		return spec.Step{Kind: spec.KWild}, true
	}
	return spec.Step{Kind: spec.KName, Key: unescapePairs(c.text(d))}, true
}

// unquoteJSONStyle decodes the inside of a quoted identifier: \\ \/ \b \f \n \r \t \uXXXX
// (surrogate pairs combined, lone surrogates -> U+FFFD) and the escaped quote.
func unquoteJSONStyle(s string) (string, error) {
	rs := []rune(s)
	var out []rune
	for i := 0; i < len(rs); i++ {
		ch := rs[i]
		if ch != '\\' {
			out = append(out, ch)
			continue
		}
		i++
		if i >= len(rs) {
			return "", fmt.Errorf("dangling backslash")
		}
		switch rs[i] {
		case 'b':
			out = append(out, '\b')
		case 'f':
			out = append(out, '\f')
		case 'n':
			out = append(out, '\n')
		case 'r':
			out = append(out, '\r')
		case 't':
			out = append(out, '\t')
		case 'u':
			if i+4 >= len(rs)+0 && i+4 > len(rs)-1+0 && i+4 != len(rs)-1+1 {
				return "", fmt.Errorf("short \\u escape")
			}
			if i+4 > len(rs)-1 {
				return "", fmt.Errorf("short \\u escape")
			}
			v, err := strconv.ParseUint(string(rs[i+1:i+5]), 16, 32)
			if err != nil {
				return "", err
			}
			i += 4
			r := rune(v)
			if utf16.IsSurrogate(r) {
				// a following \uXXXX low surrogate completes the pair
				if i+6 <= len(rs)-1 && rs[i+1] == '\\' && rs[i+2] == 'u' {
					if v2, err := strconv.ParseUint(string(rs[i+3:i+7]), 16, 32); err == nil {
						if dec := utf16.DecodeRune(r, rune(v2)); dec != 0xfffd {
							out = append(out, dec)
							i += 6
							continue
						}
					}
				}
				r = 0xfffd
			}
			out = append(out, r)
		default: // \\ \/ \' \"
			out = append(out, rs[i])
		}
	}
	return string(out), nil
}

func (c *conv) bracket(b *pegi.Node) spec.Step {
	if bc := kid(b, "bracketChildIdentifier"); bc != nil {
		ids := kids(bc, "bracketNodeIdentifier")
		items := make([]spec.MItem, 0, len(ids))
		for _, id := range ids {
			if len(id.Kids) == 0 {
				c.fail("empty bracket identifier")
				continue
			}
			switch q := id.Kids[0]; q.Rule {
			case "wildcardIdentifier":
				items = append(items, spec.MItem{Wild: true})
			case "singleQuotedNodeIdentifier", "doubleQuotedNodeIdentifier":
				raw := c.text(q)
				key, err := unquoteJSONStyle(raw[1 : len(raw)-1])
				if err != nil {
					c.fail("identifier %q: %v", raw, err)
				}
				items = append(items, spec.MItem{Key: key})
			}
		}
		if len(items) == 1 {
			if items[0].Wild {
				return spec.Step{Kind: spec.KWild, Bracket: true}
			}
			return spec.Step{Kind: spec.KName, Key: items[0].Key, Bracket: true}
		}
		return spec.Step{Kind: spec.KMulti, Items: items}
	}
	q := kid(b, "qualifier")
	if q == nil || len(q.Kids) == 0 {
		c.fail("bracket of unknown shape")
		return spec.Step{Kind: spec.KWild}
	}
	switch x := q.Kids[0]; x.Rule {
	case "union":
		var subs []spec.Sub
		for _, idx := range kids(x, "index") {
			subs = append(subs, c.index(idx))
		}
		return spec.Step{Kind: spec.KUnion, Subs: subs}
	case "filter":
		qn := kid(x, "query")
		if qn == nil {
			c.fail("filter without query")
			return spec.Step{Kind: spec.KWild}
		}
		return spec.Step{Kind: spec.KFilter, Q: c.query(qn)}
	}
	c.fail("unsupported qualifier %s", q.Kids[0].Rule)
	return spec.Step{Kind: spec.KWild}
}

func (c *conv) int(n *pegi.Node) *int64 {
	t := c.text(n)
	if t == "" {
		return nil
	}
	v, err := strconv.ParseInt(t, 10, 64)
	if err != nil {
		c.fail("integer %q: %v", t, err)
	}
	return &v
}

func (c *conv) index(n *pegi.Node) spec.Sub {
	if sl := kid(n, "slice"); sl != nil {
		parts := kids(sl, "anyIndex")
		s := spec.Sub{Kind: spec.SSlice}
		if len(parts) < 2 {
			c.fail("slice with %d parts", len(parts))
			return s
		}
		s.Start, s.End = c.int(parts[0]), c.int(parts[1])
		if len(parts) > 2 {
			s.Step = c.int(parts[2])
		}
		return s
	}
	t := c.text(n)
	if t == "*" {
		return spec.Sub{Kind: spec.SWild}
	}
	v, err := strconv.ParseInt(t, 10, 64)
	if err != nil {
		c.fail("index %q: %v", t, err)
	}
	return spec.Sub{Kind: spec.SIndex, N: v}
}

func (c *conv) query(n *pegi.Node) *spec.Query {
	ands := kids(n, "andQuery")
	if len(ands) == 0 {
		c.fail("query without andQuery")
		return &spec.Query{Op: spec.QExist, P: &spec.Path{Root: '@'}}
	}
	q := c.andQuery(ands[0])
	for _, a := range ands[1:] {
		q = &spec.Query{Op: spec.QOr, L: q, R: c.andQuery(a)}
	}
	return q
}

func (c *conv) andQuery(n *pegi.Node) *spec.Query {
	bs := kids(n, "basicQuery")
	if len(bs) == 0 {
		c.fail("andQuery without basicQuery")
		return &spec.Query{Op: spec.QExist, P: &spec.Path{Root: '@'}}
	}
	q := c.basicQuery(bs[0])
	for _, b := range bs[1:] {
		q = &spec.Query{Op: spec.QAnd, L: q, R: c.basicQuery(b)}
	}
	return q
}

func (c *conv) basicQuery(n *pegi.Node) *spec.Query {
	if sub := kid(n, "query"); sub != nil {
		return &spec.Query{Op: spec.QParen, L: c.query(sub)}
	}
	if cmp := kid(n, "comparator"); cmp != nil {
		return c.comparator(cmp)
	}
	jf := kid(n, "jsonpathFilter")
	if jf == nil {
		c.fail("basicQuery of unknown shape")
		return &spec.Query{Op: spec.QExist, P: &spec.Path{Root: '@'}}
	}
	p := c.operandPath(jf)
	if kid(n, "logicNot") != nil {
		return &spec.Query{Op: spec.QNot, P: p}
	}
	return &spec.Query{Op: spec.QExist, P: p}
}

func (c *conv) operandPath(jf *pegi.Node) *spec.Path {
	jp := jf
	if jf.Rule != "jsonpathParameter" {
		var found []*pegi.Node
		jf.Find("jsonpathParameter", &found)
		if len(found) == 0 {
			c.fail("filter operand without path")
			return &spec.Path{Root: '@'}
		}
		jp = found[0]
	}
	p, _ := c.path(jp, "parameterRootNode")
	return p
}

func (c *conv) operand(n *pegi.Node) spec.Operand {
	// n: qParam / qNumericParam / singleJsonpathFilter
	if n.Rule == "singleJsonpathFilter" {
		return spec.Operand{P: c.operandPath(n)}
	}
	if s := kid(n, "singleJsonpathFilter"); s != nil {
		return spec.Operand{P: c.operandPath(s)}
	}
	var lit *pegi.Node
	if l := kid(n, "qLiteral"); l != nil && len(l.Kids) > 0 {
		lit = l.Kids[0]
	} else if l := kid(n, "lNumber"); l != nil {
		lit = l
	}
	if lit == nil {
		c.fail("operand of unknown shape %q", c.text(n))
		return spec.Operand{IsLit: true}
	}
	t := c.text(lit)
	switch lit.Rule {
	case "lNumber":
		v, err := strconv.ParseFloat(t, 64)
		if err != nil {
			c.fail("number %q: %v", t, err)
		}
		return spec.Operand{IsLit: true, Lit: v, LitText: t}
	case "lBool":
		return spec.Operand{IsLit: true, Lit: strings.EqualFold(t, "true"), LitText: t}
	case "lNull":
		return spec.Operand{IsLit: true, Lit: nil, LitText: t}
	case "lString":
		return spec.Operand{IsLit: true, Lit: unescapePairs(t[1 : len(t)-1]), LitText: t}
	}
	c.fail("literal of unknown kind %s", lit.Rule)
	return spec.Operand{IsLit: true}
}

func (c *conv) comparator(n *pegi.Node) *spec.Query {
	var ops []*pegi.Node
	for _, k := range n.Kids {
		switch k.Rule {
		case "qParam", "qNumericParam", "singleJsonpathFilter":
			ops = append(ops, k)
		}
	}
	if re := kid(n, "regex"); re != nil {
		if len(ops) != 1 {
			c.fail("regex comparison with %d operands", len(ops))
			return &spec.Query{Op: spec.QExist, P: &spec.Path{Root: '@'}}
		}
		return &spec.Query{Op: spec.QRegex, P: c.operand(ops[0]).P, Re: c.text(re)}
	}
	if len(ops) != 2 {
		c.fail("comparison with %d operands", len(ops))
		return &spec.Query{Op: spec.QExist, P: &spec.Path{Root: '@'}}
	}
	op := strings.TrimSpace(c.m.Text(ops[0].End, ops[1].Begin))
	switch op {
	case "==", "!=", "<", "<=", ">", ">=":
	default:
		c.fail("unknown comparison operator %q", op)
	}
	return &spec.Query{Op: spec.QCmp, Cmp: op, LO: c.operand(ops[0]), RO: c.operand(ops[1])}
}
