package p2a_test

import (
	"math/rand"
	"testing"

	"verif/internal/gen"
	"verif/internal/p2a"
	"verif/internal/spec"
)

// Round trip: every generated AST, rendered in a random spelling and converted back from the
// grammar's parse tree, must render canonically to the same text as the original AST.
func TestRoundTrip(t *testing.T) {
	g, err := gen.LoadGrammar()
	if err != nil {
		t.Skip("grammar not available:", err)
	}
	r := rand.New(rand.NewSource(7))
	gn := gen.New(r)
	gn.BigInts = true
	bad := 0
	for i := 0; i < 30000 && bad < 5; i++ {
		p := gn.Path(5, 2)
		want := p.Text()
		spelled, _ := p.Render(gen.RandomSpelling(r))
		res, derivable, err := p2a.Convert(g, spelled)
		if !derivable || err != nil {
			t.Errorf("%q (from %q): derivable=%v err=%v", spelled, want, derivable, err)
			bad++
			continue
		}
		// the rootless spelling and the bracket/dot choice are spelling, not structure: normalise both
		norm := func(x *spec.Path) string {
			c := *x
			if c.Root == 0 {
				c.Root = '$'
			}
			return canonical(&c)
		}
		if got := norm(res.Path); got != norm(p) {
			t.Errorf("%q -> %q, want %q", spelled, got, norm(p))
			bad++
		}
	}
}

// canonical renders with every name in bracket form so that .name / ['name'] choices do not matter.
func canonical(p *spec.Path) string {
	var walk func(p *spec.Path)
	walk = func(p *spec.Path) {
		for i := range p.Steps {
			s := &p.Steps[i]
			if s.Kind == spec.KName || s.Kind == spec.KWild {
				s.Bracket = true
			}
		}
	}
	cp := clone(p)
	cp.Walk(walk)
	return cp.Text()
}

func clone(p *spec.Path) *spec.Path {
	cp := &spec.Path{Root: p.Root, Funcs: append([]string{}, p.Funcs...)}
	for _, s := range p.Steps {
		ns := s
		if s.Q != nil {
			ns.Q = cloneQ(s.Q)
		}
		cp.Steps = append(cp.Steps, ns)
	}
	return cp
}

func cloneQ(q *spec.Query) *spec.Query {
	nq := *q
	if q.L != nil {
		nq.L = cloneQ(q.L)
	}
	if q.R != nil {
		nq.R = cloneQ(q.R)
	}
	if q.P != nil {
		nq.P = clone(q.P)
	}
	if q.LO.P != nil {
		nq.LO.P = clone(q.LO.P)
	}
	if q.RO.P != nil {
		nq.RO.P = clone(q.RO.P)
	}
	return &nq
}
