package pegi

import (
	"math/rand"
	"strings"
)

// Derive produces a random sentence-like string by walking the grammar from the
// given rule. Character classes emit their range end-points and the characters
// just outside them (the boundary values a generated parser is most likely to
// get wrong), predicates are ignored, so the result is near the language but
// not necessarily inside it.
func (g *Grammar) Derive(r *rand.Rand, rule string, maxDepth int) string {
	var b strings.Builder
	d := &deriver{g: g, r: r, b: &b, max: maxDepth, budget: 400}
	d.expr(g.Rules[rule], 0)
	return b.String()
}

type deriver struct {
	g      *Grammar
	r      *rand.Rand
	b      *strings.Builder
	max    int
	budget int
}

var dotPool = []rune{'a', 'Z', '0', ' ', '.', '*', '\'', '"', '\\', '/', ')', ']', '(', '[', '@', '$', ',', ':', '!', '=', '<', '>', '~', '&', '|', '?', '-', '+', '_', 0x00, 0x1f, 0x20, 0x7e, 0x7f, 0x80, 0xe9, 0x3042, 0xffff, 0x1f600, '\n', '\t'}

func (d *deriver) expr(e Expr, depth int) {
	d.budget--
	if d.budget < 0 {
		return
	}
	switch t := e.(type) {
	case Seq:
		for _, it := range t.Items {
			d.expr(it, depth)
		}
	case Alt:
		if depth >= d.max {
			d.expr(t.Items[len(t.Items)-1], depth+1)
			return
		}
		d.expr(t.Items[d.r.Intn(len(t.Items))], depth)
	case Star:
		if depth >= d.max {
			return
		}
		for n := d.r.Intn(3); n > 0; n-- {
			d.expr(t.E, depth+1)
		}
	case Plus:
		n := 1
		if depth < d.max {
			n += d.r.Intn(2)
		}
		for ; n > 0; n-- {
			d.expr(t.E, depth+1)
		}
	case Opt:
		if depth < d.max && d.r.Intn(2) == 0 {
			d.expr(t.E, depth+1)
		}
	case Not, And, Action:
	case Lit:
		d.b.WriteString(string(t.R))
	case Class:
		d.b.WriteRune(d.classRune(t))
	case Dot:
		d.b.WriteRune(dotPool[d.r.Intn(len(dotPool))])
	case Ref:
		if depth > d.max+6 {
			return
		}
		d.expr(d.g.Rules[t.Name], depth+1)
	case Capture:
		d.expr(t.E, depth)
	}
}

func (d *deriver) classRune(c Class) rune {
	if len(c.Ranges) == 0 {
		return 'a'
	}
	rg := c.Ranges[d.r.Intn(len(c.Ranges))]
	var cand []rune
	switch d.r.Intn(8) {
	case 0:
		cand = append(cand, rg[0]-1)
	case 1:
		cand = append(cand, rg[1]+1)
	case 2, 3:
		cand = append(cand, rg[0])
	case 4, 5:
		cand = append(cand, rg[1])
	default:
		cand = append(cand, rg[0]+rune(d.r.Int63n(int64(rg[1]-rg[0])+1)))
	}
	x := cand[0]
	if c.Neg {
		// for a negated class the interesting values are the same boundaries
		// (members of the listed ranges are the excluded ones)
		if d.r.Intn(2) == 0 {
			return dotPool[d.r.Intn(len(dotPool))]
		}
	}
	if x < 0 {
		x = 0
	}
	if x > 0x10ffff || (x >= 0xd800 && x <= 0xdfff) {
		x = 0xfffd
	}
	return x
}

// ClassBoundaries lists, for every character class of the grammar, its range
// end-points and their outside neighbours (for coverage accounting).
func (g *Grammar) ClassBoundaries() []rune {
	seen := map[rune]bool{}
	var out []rune
	var walk func(e Expr)
	walk = func(e Expr) {
		switch t := e.(type) {
		case Seq:
			for _, it := range t.Items {
				walk(it)
			}
		case Alt:
			for _, it := range t.Items {
				walk(it)
			}
		case Star:
			walk(t.E)
		case Plus:
			walk(t.E)
		case Opt:
			walk(t.E)
		case Not:
			walk(t.E)
		case And:
			walk(t.E)
		case Capture:
			walk(t.E)
		case Class:
			for _, rg := range t.Ranges {
				for _, x := range []rune{rg[0] - 1, rg[0], rg[1], rg[1] + 1} {
					if x >= 0 && x <= 0x10ffff && !(x >= 0xd800 && x <= 0xdfff) && !seen[x] {
						seen[x] = true
						out = append(out, x)
					}
				}
			}
		}
	}
	for _, n := range g.Order {
		walk(g.Rules[n])
	}
	return out
}
