package pegi

import (
	"regexp"
	"strconv"
	"strings"
)

// Oracle decides, from the grammar file alone, what Parse must do with a
// string: derivability from rule `jsonpath`, the end of the longest prefix that
// rule consumes, and the semantic restrictions the matched prefix violates.
type Oracle struct {
	G      *Grammar
	Filter map[string]bool // registered filter functions
	Aggr   map[string]bool // registered aggregate functions
}

// Verdict of the oracle for one string.
type Verdict struct {
	Matched   bool            // rule jsonpath matched a prefix
	Derivable bool            // ... and that prefix is the whole string
	PrefixEnd int             // end (in runes) of the prefix consumed by rule jsonpath, 0 if none
	Viol      map[string]bool // acceptable rejection signatures: error type, for ErrorInvalidSyntax type|reason
	Steps     int
}

const (
	SigNotFound   = "jsonpath.ErrorFunctionNotFound"
	SigArgument   = "jsonpath.ErrorInvalidArgument"
	SigNotSupport = "jsonpath.ErrorNotSupported"
	SigValueGroup = "jsonpath.ErrorInvalidSyntax|JSONPath that returns a value group is prohibited"
	SigTwoCurrent = "jsonpath.ErrorInvalidSyntax|comparison between two current nodes is prohibited"
)

func (o *Oracle) isVG(m *Matcher, param *Node) bool {
	var cont *Node
	for _, k := range param.Kids {
		if k.Rule == "continuedJsonpath" {
			cont = k
		}
	}
	if cont == nil {
		return false
	}
	vg := false
	var fns []*Node
	for _, k := range cont.Kids {
		switch k.Rule {
		case "function":
			fns = append(fns, k)
		case "childNode":
			if o.childVG(m, k) {
				vg = true
			}
		}
	}
	for _, f := range fns {
		var nm []*Node
		f.Find("functionName", &nm)
		name := m.Text(nm[0].Begin, nm[0].End)
		if !o.Filter[name] && o.Aggr[name] {
			return false
		}
	}
	return vg
}

func (o *Oracle) childVG(m *Matcher, child *Node) bool {
	text := m.Text(child.Begin, child.End)
	if strings.HasPrefix(text, "..") {
		return true
	}
	for _, k := range child.Kids {
		switch k.Rule {
		case "dotChildIdentifier":
			return len(k.Kids) > 0 && k.Kids[0].Rule == "wildcardIdentifier"
		case "bracketNode":
			return o.bracketVG(m, k)
		}
	}
	return false
}

func (o *Oracle) bracketVG(m *Matcher, br *Node) bool {
	for _, k := range br.Kids {
		switch k.Rule {
		case "bracketChildIdentifier":
			n := 0
			wild := false
			for _, id := range k.Kids {
				if id.Rule == "bracketNodeIdentifier" {
					n++
					if len(id.Kids) > 0 && id.Kids[0].Rule == "wildcardIdentifier" {
						wild = true
					}
				}
			}
			return n > 1 || wild
		case "qualifier":
			if len(k.Kids) == 0 {
				return false
			}
			q := k.Kids[0]
			switch q.Rule {
			case "filter":
				return true
			case "union":
				n := 0
				vg := false
				for _, idx := range q.Kids {
					if idx.Rule == "index" {
						n++
						if len(idx.Kids) > 0 && idx.Kids[0].Rule == "slice" {
							vg = true
						}
						if m.Text(idx.Begin, idx.End) == "*" {
							vg = true
						}
					}
				}
				return n > 1 || vg
			}
		}
	}
	return false
}

// Check evaluates the oracle on s.
func (o *Oracle) Check(s string) Verdict {
	m := NewMatcher(o.G, s)
	v := Verdict{Viol: map[string]bool{}}
	end, node, ok := m.MatchRule("jsonpath", 0)
	v.Steps = m.Steps
	if !ok {
		return v
	}
	v.Matched = true
	v.PrefixEnd = end
	v.Derivable = end == len(m.In)
	// Actions run for the matched prefix even when the rest is garbage, so the
	// restrictions are evaluated over the prefix's parse tree.
	var ns []*Node
	node.Find("function", &ns)
	for _, f := range ns {
		var nm []*Node
		f.Find("functionName", &nm)
		name := m.Text(nm[0].Begin, nm[0].End)
		if !o.Filter[name] && !o.Aggr[name] {
			v.Viol[SigNotFound] = true
		}
	}
	ns = nil
	node.Find("indexNumber", &ns)
	for _, n := range ns {
		if _, err := strconv.Atoi(m.Text(n.Begin, n.End)); err != nil {
			v.Viol[SigArgument] = true
		}
	}
	ns = nil
	node.Find("lNumber", &ns)
	for _, n := range ns {
		if _, err := strconv.ParseFloat(m.Text(n.Begin, n.End), 64); err != nil {
			v.Viol[SigArgument] = true
		}
	}
	ns = nil
	node.Find("regex", &ns)
	for _, n := range ns {
		if _, err := regexp.Compile(m.Text(n.Begin, n.End)); err != nil {
			v.Viol[SigArgument] = true
		}
	}
	ns = nil
	node.Find("script", &ns)
	if len(ns) > 0 {
		v.Viol[SigNotSupport] = true
	}
	for _, rule := range []string{"singleQuotedNodeIdentifier", "doubleQuotedNodeIdentifier"} {
		ns = nil
		node.Find(rule, &ns)
		for _, n := range ns {
			for _, r := range m.In[n.Begin:n.End] {
				if r < 0x20 {
					// the JSON unescape rejects raw control characters
					v.Viol[SigArgument] = true
				}
			}
			if !validEscapes(m.In[n.Begin:n.End]) {
				v.Viol[SigArgument] = true
			}
		}
	}
	ns = nil
	node.Find("singleJsonpathFilter", &ns)
	for _, n := range ns {
		var ps []*Node
		n.Kids[0].Find("jsonpathParameter", &ps)
		if len(ps) > 0 && o.isVG(m, ps[0]) {
			v.Viol[SigValueGroup] = true
		}
	}
	ns = nil
	node.Find("comparator", &ns)
	for _, n := range ns {
		at := 0
		for _, k := range n.Kids {
			if k.Rule == "qParam" || k.Rule == "qNumericParam" || k.Rule == "singleJsonpathFilter" {
				var ps []*Node
				k.Find("parameterRootNode", &ps)
				// the first parameterRootNode in document order is the operand's own root
				if len(ps) > 0 && m.Text(ps[0].Begin, ps[0].End) == "@" {
					at++
				}
			}
		}
		if at >= 2 {
			v.Viol[SigTwoCurrent] = true
		}
	}
	return v
}

// validEscapes: quoted identifiers are decoded as JSON strings; lone surrogate
// escapes decode to U+FFFD (accepted), every grammar-admitted escape is valid
// JSON, so nothing to reject here beyond control characters. Kept as a hook for
// the day the grammar admits more.
func validEscapes([]rune) bool { return true }
