// Package pegi: a small independent interpreter for pointlander/peg grammar files.
package pegi

import (
	"fmt"
	"strconv"
	"strings"
	"unicode"
)

type Expr interface{}
type Seq struct{ Items []Expr }
type Alt struct{ Items []Expr }
type Star struct{ E Expr }
type Plus struct{ E Expr }
type Opt struct{ E Expr }
type Not struct{ E Expr }
type And struct{ E Expr }
type Lit struct {
	R  []rune
	CI bool
}
type Class struct {
	Neg    bool
	Ranges [][2]rune
	CI     bool
}
type Dot struct{}
type Ref struct{ Name string }
type Capture struct{ E Expr }
type Action struct{ Code string }

type Grammar struct {
	Rules map[string]Expr
	Order []string
}

type gp struct {
	s   []rune
	pos int
}

func (p *gp) eof() bool { return p.pos >= len(p.s) }
func (p *gp) peek() rune {
	if p.eof() {
		return -1
	}
	return p.s[p.pos]
}
func (p *gp) ws() {
	for !p.eof() {
		c := p.peek()
		if c == ' ' || c == '\t' || c == '\n' || c == '\r' {
			p.pos++
		} else if c == '#' {
			for !p.eof() && p.peek() != '\n' {
				p.pos++
			}
		} else {
			break
		}
	}
}
func isIdStart(c rune) bool { return c == '_' || unicode.IsLetter(c) }
func isIdCont(c rune) bool  { return isIdStart(c) || unicode.IsDigit(c) }
func (p *gp) ident() (string, bool) {
	if p.eof() || !isIdStart(p.peek()) {
		return "", false
	}
	st := p.pos
	for !p.eof() && isIdCont(p.peek()) {
		p.pos++
	}
	id := string(p.s[st:p.pos])
	p.ws()
	return id, true
}
func (p *gp) has(s string) bool {
	r := []rune(s)
	if p.pos+len(r) > len(p.s) {
		return false
	}
	for i := range r {
		if p.s[p.pos+i] != r[i] {
			return false
		}
	}
	return true
}
func (p *gp) eat(s string) bool {
	if p.has(s) {
		p.pos += len([]rune(s))
		p.ws()
		return true
	}
	return false
}

// skipAction consumes a balanced {...} block, honouring Go string/rune literals.
func (p *gp) action() string {
	st := p.pos
	depth := 0
	for !p.eof() {
		c := p.peek()
		switch c {
		case '{':
			depth++
			p.pos++
		case '}':
			depth--
			p.pos++
			if depth == 0 {
				code := string(p.s[st+1 : p.pos-1])
				p.ws()
				return code
			}
		case '"', '`', '\'':
			q := c
			p.pos++
			for !p.eof() && p.peek() != q {
				if p.peek() == '\\' && q != '`' {
					p.pos++
				}
				p.pos++
			}
			p.pos++
		default:
			p.pos++
		}
	}
	panic("unterminated action")
}

func (p *gp) escape() rune {
	// at backslash
	p.pos++
	c := p.peek()
	p.pos++
	switch c {
	case 'a':
		return '\a'
	case 'b':
		return '\b'
	case 'e':
		return 0x1b
	case 'f':
		return '\f'
	case 'n':
		return '\n'
	case 'r':
		return '\r'
	case 't':
		return '\t'
	case 'v':
		return '\v'
	case '0':
		if p.peek() == 'x' {
			p.pos++
			st := p.pos
			for !p.eof() && strings.ContainsRune("0123456789abcdefABCDEF", p.peek()) {
				p.pos++
			}
			v, err := strconv.ParseInt(string(p.s[st:p.pos]), 16, 32)
			if err != nil {
				panic(err)
			}
			return rune(v)
		}
		fallthrough
	case '1', '2', '3', '4', '5', '6', '7':
		// octal: up to 3 digits
		v := int(c - '0')
		for i := 0; i < 2 && !p.eof() && p.peek() >= '0' && p.peek() <= '7'; i++ {
			v = v*8 + int(p.peek()-'0')
			p.pos++
		}
		return rune(v)
	}
	return c // \' \" \[ \] \- \\ and others
}

func (p *gp) literal() Expr {
	q := p.peek()
	p.pos++
	var rs []rune
	for p.peek() != q {
		if p.eof() {
			panic("unterminated literal")
		}
		if p.peek() == '\\' {
			rs = append(rs, p.escape())
		} else {
			rs = append(rs, p.peek())
			p.pos++
		}
	}
	p.pos++
	p.ws()
	return Lit{R: rs, CI: q == '"'}
}

func (p *gp) class() Expr {
	ci := false
	p.pos++ // [
	if p.peek() == '[' && false {
		ci = true
	}
	c := Class{CI: ci}
	if p.peek() == '^' {
		c.Neg = true
		p.pos++
	}
	ch := func() rune {
		if p.peek() == '\\' {
			return p.escape()
		}
		r := p.peek()
		p.pos++
		return r
	}
	for p.peek() != ']' {
		if p.eof() {
			panic("unterminated class")
		}
		lo := ch()
		hi := lo
		if p.peek() == '-' && p.pos+1 < len(p.s) && p.s[p.pos+1] != ']' {
			p.pos++
			hi = ch()
		}
		c.Ranges = append(c.Ranges, [2]rune{lo, hi})
	}
	p.pos++
	p.ws()
	return c
}

func (p *gp) atDefinition() bool {
	save := p.pos
	defer func() { p.pos = save }()
	if _, ok := p.ident(); !ok {
		return false
	}
	return p.has("<-")
}

func (p *gp) primary() (Expr, bool) {
	switch c := p.peek(); {
	case c == '(':
		p.eat("(")
		e := p.expression()
		if !p.eat(")") {
			panic(fmt.Sprintf("expected ) at %d", p.pos))
		}
		return e, true
	case c == '\'' || c == '"':
		return p.literal(), true
	case c == '[':
		return p.class(), true
	case c == '.':
		p.eat(".")
		return Dot{}, true
	case c == '{':
		return Action{Code: p.action()}, true
	case c == '<' && !p.has("<-"):
		p.eat("<")
		e := p.expression()
		if !p.eat(">") {
			panic(fmt.Sprintf("expected > at %d", p.pos))
		}
		return Capture{E: e}, true
	case isIdStart(c):
		if p.atDefinition() {
			return nil, false
		}
		id, _ := p.ident()
		return Ref{Name: id}, true
	}
	return nil, false
}

func (p *gp) prefix() (Expr, bool) {
	if p.peek() == '!' {
		p.eat("!")
		e, ok := p.suffix()
		if !ok {
			panic("bad !")
		}
		return Not{E: e}, true
	}
	if p.peek() == '&' {
		p.eat("&")
		e, ok := p.suffix()
		if !ok {
			panic("bad &")
		}
		return And{E: e}, true
	}
	return p.suffix()
}

func (p *gp) suffix() (Expr, bool) {
	e, ok := p.primary()
	if !ok {
		return nil, false
	}
	switch p.peek() {
	case '*':
		p.eat("*")
		return Star{E: e}, true
	case '+':
		p.eat("+")
		return Plus{E: e}, true
	case '?':
		p.eat("?")
		return Opt{E: e}, true
	}
	return e, true
}

func (p *gp) sequence() Expr {
	var items []Expr
	for {
		e, ok := p.prefix()
		if !ok {
			break
		}
		items = append(items, e)
	}
	return Seq{Items: items}
}

func (p *gp) expression() Expr {
	alts := []Expr{p.sequence()}
	for p.peek() == '/' {
		p.eat("/")
		alts = append(alts, p.sequence())
	}
	if len(alts) == 1 {
		return alts[0]
	}
	return Alt{Items: alts}
}

// ParseGrammar parses the text of a .peg file.
func ParseGrammar(text string) (g *Grammar, err error) {
	defer func() {
		if r := recover(); r != nil {
			err = fmt.Errorf("peg grammar: %v", r)
		}
	}()
	p := &gp{s: []rune(text)}
	p.ws()
	if !p.eat("package") {
		panic("no package")
	}
	p.ident()
	for p.has("import") {
		p.eat("import")
		p.literal()
	}
	if !p.eat("type") {
		panic("no type")
	}
	p.ident()
	if id, _ := p.ident(); id != "Peg" {
		panic("no Peg")
	}
	p.action()
	g = &Grammar{Rules: map[string]Expr{}}
	for !p.eof() {
		name, ok := p.ident()
		if !ok {
			panic(fmt.Sprintf("expected rule name at %d", p.pos))
		}
		if !p.eat("<-") {
			panic("expected <-")
		}
		g.Rules[name] = p.expression()
		g.Order = append(g.Order, name)
	}
	return g, nil
}

// ---------- matching

type Node struct {
	Rule       string
	Begin, End int
	Kids       []*Node
	Captures   [][2]int // captures directly inside this rule (not in sub-rules)
}

type memoKey struct {
	rule string
	pos  int
}
type memoVal struct {
	ok   bool
	end  int
	node *Node
}

type Matcher struct {
	G     *Grammar
	In    []rune
	memo  map[memoKey]memoVal
	Steps int
}

func NewMatcher(g *Grammar, input string) *Matcher {
	return &Matcher{G: g, In: []rune(input), memo: map[memoKey]memoVal{}}
}

// MatchRule matches rule at pos; returns end and parse node.
func (m *Matcher) MatchRule(name string, pos int) (int, *Node, bool) {
	k := memoKey{name, pos}
	if v, ok := m.memo[k]; ok {
		return v.end, v.node, v.ok
	}
	e, ok := m.G.Rules[name]
	if !ok {
		panic("unknown rule " + name)
	}
	n := &Node{Rule: name, Begin: pos}
	end, ok := m.match(e, pos, n)
	if ok {
		n.End = end
	} else {
		n = nil
	}
	m.memo[k] = memoVal{ok, end, n}
	return end, n, ok
}

func (m *Matcher) match(e Expr, pos int, cur *Node) (int, bool) {
	m.Steps++
	switch t := e.(type) {
	case Seq:
		kids, caps := len(cur.Kids), len(cur.Captures)
		p := pos
		for _, it := range t.Items {
			np, ok := m.match(it, p, cur)
			if !ok {
				cur.Kids, cur.Captures = cur.Kids[:kids], cur.Captures[:caps]
				return pos, false
			}
			p = np
		}
		return p, true
	case Alt:
		for _, it := range t.Items {
			if np, ok := m.match(it, pos, cur); ok {
				return np, true
			}
		}
		return pos, false
	case Star:
		p := pos
		for {
			np, ok := m.match(t.E, p, cur)
			if !ok || np == p {
				return p, true
			}
			p = np
		}
	case Plus:
		p, ok := m.match(t.E, pos, cur)
		if !ok {
			return pos, false
		}
		for {
			np, ok := m.match(t.E, p, cur)
			if !ok || np == p {
				return p, true
			}
			p = np
		}
	case Opt:
		if np, ok := m.match(t.E, pos, cur); ok {
			return np, true
		}
		return pos, true
	case Not:
		kids, caps := len(cur.Kids), len(cur.Captures)
		_, ok := m.match(t.E, pos, cur)
		cur.Kids, cur.Captures = cur.Kids[:kids], cur.Captures[:caps]
		return pos, !ok
	case And:
		kids, caps := len(cur.Kids), len(cur.Captures)
		_, ok := m.match(t.E, pos, cur)
		cur.Kids, cur.Captures = cur.Kids[:kids], cur.Captures[:caps]
		return pos, ok
	case Lit:
		if pos+len(t.R) > len(m.In) {
			return pos, false
		}
		for i, r := range t.R {
			c := m.In[pos+i]
			if c != r && !(t.CI && unicode.ToLower(c) == unicode.ToLower(r)) {
				return pos, false
			}
		}
		return pos + len(t.R), true
	case Class:
		if pos >= len(m.In) {
			return pos, false
		}
		c := m.In[pos]
		in := false
		for _, rg := range t.Ranges {
			if c >= rg[0] && c <= rg[1] {
				in = true
				break
			}
		}
		if in != t.Neg {
			return pos + 1, true
		}
		return pos, false
	case Dot:
		if pos < len(m.In) {
			return pos + 1, true
		}
		return pos, false
	case Ref:
		end, n, ok := m.MatchRule(t.Name, pos)
		if ok {
			cur.Kids = append(cur.Kids, n)
		}
		return end, ok
	case Capture:
		end, ok := m.match(t.E, pos, cur)
		if ok {
			cur.Captures = append(cur.Captures, [2]int{pos, end})
		}
		return end, ok
	case Action:
		return pos, true
	}
	panic(fmt.Sprintf("bad expr %T", e))
}

func (m *Matcher) Text(b, e int) string { return string(m.In[b:e]) }

// Find returns all descendant nodes with the given rule name, in order.
func (n *Node) Find(rule string, out *[]*Node) {
	if n.Rule == rule {
		*out = append(*out, n)
	}
	for _, k := range n.Kids {
		k.Find(rule, out)
	}
}
