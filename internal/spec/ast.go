// Package spec is the independent executable specification (SPEC) of the
// JSONPath dialect implemented by github.com/AsaiYusuke/jsonpath: an AST, a
// renderer that can spell one AST in many equivalent ways, and a reference
// evaluator written from the property statements. It shares no code with the
// library.
package spec

import (
	"fmt"
	"strconv"
	"strings"
)

type Kind int

const (
	KName Kind = iota
	KMulti
	KWild
	KRec
	KUnion
	KFilter
)

func (k Kind) String() string {
	return [...]string{"name", "multi", "wild", "rec", "union", "filter"}[k]
}

type MItem struct {
	Wild bool
	Key  string
}

type SubKind int

const (
	SIndex SubKind = iota
	SSlice
	SWild
)

type Sub struct {
	Kind             SubKind
	N                int64
	Start, End, Step *int64
}

type Step struct {
	Kind  Kind
	Key   string
	Items []MItem
	Subs  []Sub
	Q     *Query
	// spelling
	Bracket bool // KName / KWild: bracket spelling
}

type Path struct {
	Root  byte // '$', '@' or 0 (omitted)
	Steps []Step
	Funcs []string
}

type QOp int

const (
	QOr QOp = iota
	QAnd
	QNot // !path
	QExist
	QCmp
	QRegex
	QParen
)

type Operand struct {
	IsLit   bool
	Lit     interface{} // float64, string, bool, nil
	LitText string
	P       *Path
}

type Query struct {
	Op   QOp
	L, R *Query
	P    *Path
	Cmp  string // == != < <= > >=
	LO   Operand
	RO   Operand
	Re   string
}

// IsValueGroup reports whether the steps of the path can select more than one value.
func (p *Path) IsValueGroup() bool {
	for i := range p.Steps {
		if p.Steps[i].IsValueGroup() {
			return true
		}
	}
	return false
}

func (s *Step) IsValueGroup() bool {
	switch s.Kind {
	case KName:
		return false
	case KUnion:
		if len(s.Subs) > 1 {
			return true
		}
		return s.Subs[0].Kind != SIndex
	}
	return true
}

// ---------- rendering

// Spelling supplies the free choices of the concrete syntax. Every method may
// be called many times per rendering; nil fields mean the canonical choice.
type Spelling struct {
	Sp      func() string      // optional spaces at a position where the grammar allows them
	DQ      func() bool        // double quotes instead of single quotes?
	Int     func(int64) string // spelling of an index / slice integer
	AltName func() bool        // flip .name <-> ['name'] where both are possible
	AltWild func() bool        // flip .* <-> [*]
	NoRoot  func() bool        // omit the leading $ where allowed
	// EmptyStep spells a slice without step in the three-part form `s:e:` (empty step) instead of `s:e`
	EmptyStep func() bool
}

var Canon = Spelling{}

func (sp Spelling) sp() string {
	if sp.Sp == nil {
		return ""
	}
	return sp.Sp()
}
func (sp Spelling) dq() bool { return sp.DQ != nil && sp.DQ() }
func (sp Spelling) int(v int64) string {
	if sp.Int == nil {
		return strconv.FormatInt(v, 10)
	}
	return sp.Int(v)
}
func (sp Spelling) altName() bool   { return sp.AltName != nil && sp.AltName() }
func (sp Spelling) altWild() bool   { return sp.AltWild != nil && sp.AltWild() }
func (sp Spelling) noRoot() bool    { return sp.NoRoot != nil && sp.NoRoot() }
func (sp Spelling) emptyStep() bool { return sp.EmptyStep != nil && sp.EmptyStep() }

func needsEscapeDot(r rune) bool {
	switch {
	case r >= '0' && r <= '9', r >= 'a' && r <= 'z', r >= 'A' && r <= 'Z', r == '-', r == '_', r >= 0x80:
		return false
	}
	return true
}

// DotOK reports whether key can be spelled in dot notation.
func DotOK(key string) bool {
	if key == "" {
		return false
	}
	for _, r := range key {
		if r < 0x20 || r == 0x7f {
			return false
		}
	}
	return true
}

// DotName spells key for dot notation: every symbol character backslash-escaped.
func DotName(key string) string {
	var b strings.Builder
	for _, r := range key {
		if needsEscapeDot(r) {
			b.WriteByte('\\')
		}
		b.WriteRune(r)
	}
	return b.String()
}

// QuoteKey spells key as a quoted bracket identifier with JSON-style escaping.
func QuoteKey(key string, dq bool) string {
	q := byte('\'')
	if dq {
		q = '"'
	}
	var b strings.Builder
	b.WriteByte(q)
	for _, r := range key {
		switch {
		case r == rune(q):
			b.WriteByte('\\')
			b.WriteRune(r)
		case r == '\\':
			b.WriteString(`\\`)
		case r == '\b':
			b.WriteString(`\b`)
		case r == '\f':
			b.WriteString(`\f`)
		case r == '\n':
			b.WriteString(`\n`)
		case r == '\r':
			b.WriteString(`\r`)
		case r == '\t':
			b.WriteString(`\t`)
		case r < 0x20:
			fmt.Fprintf(&b, `\u%04x`, r)
		default:
			b.WriteRune(r)
		}
	}
	b.WriteByte(q)
	return b.String()
}

func (s Sub) render(sp Spelling) string {
	switch s.Kind {
	case SIndex:
		return sp.int(s.N)
	case SWild:
		return "*"
	}
	i64 := func(p *int64) string {
		if p == nil {
			return ""
		}
		return sp.int(*p)
	}
	out := i64(s.Start) + sp.sp() + ":" + sp.sp() + i64(s.End)
	if s.Step != nil {
		out += sp.sp() + ":" + sp.sp() + i64(s.Step)
	} else if sp.emptyStep() {
		out += sp.sp() + ":" + sp.sp()
	}
	return out
}

// Render returns the path text and, per step and then per function, the text
// the library reports for it in runtime errors.
func (p *Path) Render(sp Spelling) (string, []string) {
	var b strings.Builder
	texts := make([]string, 0, len(p.Steps)+len(p.Funcs))
	root := p.Root
	if root == '$' && len(p.Steps) > 0 && p.Steps[0].Kind != KRec && sp.noRoot() {
		root = 0
	}
	if root != 0 {
		b.WriteByte(root)
	}
	afterRec := false
	for i := range p.Steps {
		s := &p.Steps[i]
		first := root == 0 && i == 0
		var t, rt string
		switch s.Kind {
		case KRec:
			t = ".."
		case KName:
			bracket := s.Bracket
			if DotOK(s.Key) && sp.altName() {
				bracket = !bracket
			}
			if bracket || !DotOK(s.Key) {
				t = "[" + sp.sp() + QuoteKey(s.Key, sp.dq()) + sp.sp() + "]"
			} else if afterRec || first {
				// the library reports the unescaped identifier for a bare dot child
				t = DotName(s.Key)
				rt = s.Key
			} else {
				t = "." + DotName(s.Key)
			}
		case KWild:
			bracket := s.Bracket
			if sp.altWild() {
				bracket = !bracket
			}
			if bracket {
				t = "[" + sp.sp() + "*" + sp.sp() + "]"
			} else if afterRec || first {
				t = "*"
			} else {
				t = ".*"
			}
		case KMulti:
			parts := make([]string, len(s.Items))
			for j, it := range s.Items {
				if it.Wild {
					parts[j] = "*"
				} else {
					parts[j] = QuoteKey(it.Key, sp.dq())
				}
			}
			t = "[" + sp.sp() + joinSp(parts, ",", sp) + sp.sp() + "]"
		case KUnion:
			parts := make([]string, len(s.Subs))
			for j, su := range s.Subs {
				parts[j] = su.render(sp)
			}
			t = "[" + sp.sp() + joinSp(parts, ",", sp) + sp.sp() + "]"
		case KFilter:
			t = "[" + sp.sp() + "?(" + sp.sp() + s.Q.Render(sp) + sp.sp() + ")" + sp.sp() + "]"
		}
		if rt == "" {
			rt = t
		}
		texts = append(texts, rt)
		b.WriteString(t)
		afterRec = s.Kind == KRec
	}
	for _, f := range p.Funcs {
		t := "." + f + "()"
		texts = append(texts, t)
		b.WriteString(t)
	}
	return b.String(), texts
}

func joinSp(parts []string, sep string, sp Spelling) string {
	var b strings.Builder
	for i, p := range parts {
		if i > 0 {
			b.WriteString(sp.sp())
			b.WriteString(sep)
			b.WriteString(sp.sp())
		}
		b.WriteString(p)
	}
	return b.String()
}

// QuoteKeyHex spells key as a quoted bracket identifier in which characters are written as
// JSON \uXXXX escapes (astral characters as surrogate pairs): mode 0 = every character, upper-case
// hex; 1 = every character, lower-case hex; 2 = every second character, mixed case. All of them are
// JSON-style escapings of the same key.
func QuoteKeyHex(key string, dq bool, mode int) string {
	q := byte('\'')
	if dq {
		q = '"'
	}
	var b strings.Builder
	b.WriteByte(q)
	i := 0
	for _, r := range key {
		i++
		if mode == 2 && i%2 == 0 {
			b.WriteString(QuoteKey(string(r), dq)[1 : len(QuoteKey(string(r), dq))-1])
			continue
		}
		units := []rune{r}
		if r >= 0x10000 {
			r -= 0x10000
			units = []rune{0xd800 + (r >> 10), 0xdc00 + (r & 0x3ff)}
		}
		for _, u := range units {
			switch {
			case mode == 0:
				fmt.Fprintf(&b, `\u%04X`, u)
			case mode == 1:
				fmt.Fprintf(&b, `\u%04x`, u)
			default:
				h := fmt.Sprintf("%04x", u)
				fmt.Fprintf(&b, `\u%s%s`, strings.ToUpper(h[:2]), h[2:])
			}
		}
	}
	b.WriteByte(q)
	return b.String()
}

// QuoteKeyLoneSurrogates spells a key that contains U+FFFD with every U+FFFD written as an UNPAIRED surrogate
// escape (JSON-style decoding turns each into U+FFFD); the other characters are written raw (escaped as
// QuoteKey does) or as \uXXXX escapes as pick decides. A high surrogate is never followed by a low one,
// so no pair forms. pick(n) returns a number in [0,n).
func QuoteKeyLoneSurrogates(key string, dq bool, pick func(n int) int) string {
	q := byte('\'')
	if dq {
		q = '"'
	}
	var b strings.Builder
	b.WriteByte(q)
	prevHigh := false
	for _, r := range key {
		if r == 0xFFFD {
			var u int
			if prevHigh || pick(2) == 0 {
				u = 0xd800 + pick(0x400) // high: never completes a pair
				prevHigh = true
			} else {
				u = 0xdc00 + pick(0x400) // low not preceded by a high
				prevHigh = false
			}
			if pick(2) == 0 {
				fmt.Fprintf(&b, `\u%04x`, u)
			} else {
				fmt.Fprintf(&b, `\u%04X`, u)
			}
			continue
		}
		if prevHigh || pick(2) == 0 {
			// after an unpaired high surrogate the next character is written as an escape too (the case a decoder
			// that consumes "the second escape of the pair" gets wrong) - unless it needs a surrogate pair itself
			if r < 0x10000 {
				fmt.Fprintf(&b, `\u%04x`, r)
				prevHigh = false
				continue
			}
		}
		prevHigh = false
		e := QuoteKey(string(r), dq)
		b.WriteString(e[1 : len(e)-1])
	}
	b.WriteByte(q)
	return b.String()
}

// Text renders canonically.
func (p *Path) Text() string {
	s, _ := p.Render(Canon)
	return s
}

func (o Operand) Render(sp Spelling) string {
	if o.IsLit {
		return o.LitText
	}
	s, _ := o.P.Render(operandSpelling(sp))
	return s
}

// inside filters the root of an operand path can never be omitted
func operandSpelling(sp Spelling) Spelling {
	sp.NoRoot = nil
	return sp
}

func (q *Query) Render(sp Spelling) string {
	sp = operandSpelling(sp)
	switch q.Op {
	case QOr:
		r := q.R.Render(sp)
		if q.R.Op == QOr {
			r = "(" + r + ")"
		}
		return q.L.Render(sp) + sp.sp() + "||" + sp.sp() + r
	case QAnd:
		l, r := q.L.Render(sp), q.R.Render(sp)
		if q.L.Op == QOr {
			l = "(" + l + ")"
		}
		if q.R.Op == QOr || q.R.Op == QAnd {
			r = "(" + r + ")"
		}
		return l + sp.sp() + "&&" + sp.sp() + r
	case QNot:
		s, _ := q.P.Render(sp)
		return "!" + sp.sp() + s
	case QExist:
		s, _ := q.P.Render(sp)
		return s
	case QCmp:
		return q.LO.Render(sp) + sp.sp() + q.Cmp + sp.sp() + q.RO.Render(sp)
	case QRegex:
		s, _ := q.P.Render(sp)
		return s + sp.sp() + "=~" + sp.sp() + "/" + q.Re + "/"
	case QParen:
		return "(" + sp.sp() + q.L.Render(sp) + sp.sp() + ")"
	}
	panic("bad query")
}

// Walk calls fn for p and every path nested in its filters (operands, existence tests).
func (p *Path) Walk(fn func(*Path)) {
	fn(p)
	for i := range p.Steps {
		if p.Steps[i].Kind == KFilter {
			p.Steps[i].Q.Walk(fn)
		}
	}
}

func (q *Query) Walk(fn func(*Path)) {
	switch q.Op {
	case QOr, QAnd:
		q.L.Walk(fn)
		q.R.Walk(fn)
	case QParen:
		q.L.Walk(fn)
	case QNot, QExist, QRegex:
		q.P.Walk(fn)
	case QCmp:
		if !q.LO.IsLit {
			q.LO.P.Walk(fn)
		}
		if !q.RO.IsLit {
			q.RO.P.Walk(fn)
		}
	}
}

// WalkQueries calls fn for every query node of every filter in p, nested ones included.
func (p *Path) WalkQueries(fn func(*Query)) {
	for i := range p.Steps {
		if p.Steps[i].Kind == KFilter {
			p.Steps[i].Q.walkQ(fn)
		}
	}
}

func (q *Query) walkQ(fn func(*Query)) {
	fn(q)
	switch q.Op {
	case QOr, QAnd:
		q.L.walkQ(fn)
		q.R.walkQ(fn)
	case QParen:
		q.L.walkQ(fn)
	case QNot, QExist, QRegex:
		q.P.WalkQueries(fn)
	case QCmp:
		if !q.LO.IsLit {
			q.LO.P.WalkQueries(fn)
		}
		if !q.RO.IsLit {
			q.RO.P.WalkQueries(fn)
		}
	}
}
