package spec

import (
	"encoding/json"
	"reflect"
	"regexp"
	"sort"
)

type LocKind int

const (
	LNone LocKind = iota
	LMap
	LList
)

type Loc struct {
	Kind LocKind
	Map  map[string]interface{}
	Key  string
	List []interface{}
	Idx  int
}

type Res struct {
	V   interface{}
	Loc Loc
}

type FailKind int

const (
	FMember FailKind = iota
	FType
	FFunc
)

type Fail struct {
	Depth    int
	Kind     FailKind
	Expected string
	Found    string
	Err      error
}

type Funcs struct {
	Filter map[string]func(interface{}) (interface{}, error)
	Aggr   map[string]func([]interface{}) (interface{}, error)
}

type Evaluator struct {
	F Funcs
	// OptDepth is > 0 while the evaluator is inside the right operand of a
	// && / || whose left operand already decided the outcome for all members
	// (an implementation may legitimately skip that operand). User functions
	// can read it to tag the calls they receive as optional.
	OptDepth int
	// MemoRoot: remember the outcome of every `$`-rooted operand path for the duration of one Eval. Within one
	// Eval the root never changes and such a path depends on nothing else, so this only removes re-evaluation
	// (nested filters re-evaluate their `$` operands once per outer member otherwise). Off where the NUMBER of
	// user function calls is what is being judged (C14).
	MemoRoot bool
	memo     map[*Path]opval
	fails    []Fail
}

func typeName(v interface{}) string {
	if v == nil {
		return "null"
	}
	return reflect.TypeOf(v).String()
}

func sortedKeys(m map[string]interface{}) []string {
	ks := make([]string, 0, len(m))
	for k := range m {
		ks = append(ks, k)
	}
	sort.Strings(ks)
	return ks
}

// PySlice returns the indices a Python slice selects.
func PySlice(n int64, start, end, step *int64) []int64 {
	st := int64(1)
	if step != nil {
		st = *step
	}
	if st == 0 {
		return nil
	}
	var lo, hi int64
	clamp := func(v *int64, defPos, defNeg int64, lower, upper int64) int64 {
		if v == nil {
			if st > 0 {
				return defPos
			}
			return defNeg
		}
		x := *v
		if x < 0 {
			// avoid overflow: x + n
			if x < -n-1 {
				x = -n - 1
			}
			x += n
			if x < lower {
				x = lower
			}
		} else if x > upper {
			x = upper
		}
		return x
	}
	var out []int64
	if st > 0 {
		lo = clamp(start, 0, 0, 0, n)
		hi = clamp(end, n, n, 0, n)
		for i := lo; i < hi; {
			out = append(out, i)
			if i > hi-st { // overflow-safe
				break
			}
			i += st
		}
	} else {
		lo = clamp(start, n-1, n-1, -1, n-1)
		hi = clamp(end, -1, -1, -1, n-1)
		for i := lo; i > hi; {
			out = append(out, i)
			if i < hi-st {
				break
			}
			i += st
		}
	}
	return out
}

func (s Sub) indexes(n int64) []int64 {
	switch s.Kind {
	case SIndex:
		i := s.N
		if i < 0 {
			if i < -n {
				return nil
			}
			i += n
		}
		if i < 0 || i >= n {
			return nil
		}
		return []int64{i}
	case SWild:
		out := make([]int64, n)
		for i := range out {
			out[i] = int64(i)
		}
		return out
	}
	return PySlice(n, s.Start, s.End, s.Step)
}

// Eval evaluates the whole path (steps and functions) against root/current.
// It returns the results and, when there are none, the failure events.
func (e *Evaluator) Eval(p *Path, root, current interface{}) ([]Res, []Fail) {
	e.fails = nil
	e.memo = nil
	start := current
	if p.Root == '$' || p.Root == 0 {
		start = root
	}
	res := e.evalFrom(p, root, start)
	if len(res) > 0 {
		return res, nil
	}
	return nil, e.fails
}

func (e *Evaluator) evalFrom(p *Path, root, start interface{}) []Res {
	var vals []Res
	e.steps(p, 0, Res{V: start}, root, &vals)
	single := !p.IsValueGroup()
	for j, name := range p.Funcs {
		depth := len(p.Steps) + j
		if len(vals) == 0 {
			return nil
		}
		if f, ok := e.F.Filter[name]; ok {
			var next []Res
			for _, v := range vals {
				r, err := f(v.V)
				if err != nil {
					e.fails = append(e.fails, Fail{Depth: depth, Kind: FFunc, Err: err})
					continue
				}
				next = append(next, Res{V: r})
			}
			vals = next
			continue
		}
		f := e.F.Aggr[name]
		arg := make([]interface{}, len(vals))
		for i := range vals {
			arg[i] = vals[i].V
		}
		if single {
			if arr, ok := vals[0].V.([]interface{}); ok {
				arg = arr
			}
		}
		r, err := f(arg)
		if err != nil {
			e.fails = append(e.fails, Fail{Depth: depth, Kind: FFunc, Err: err})
			return nil
		}
		vals = []Res{{V: r}}
		single = true
	}
	return vals
}

func (e *Evaluator) fail(depth int, k FailKind, exp string, v interface{}) {
	f := Fail{Depth: depth, Kind: k}
	if k == FType {
		f.Expected = exp
		f.Found = typeName(v)
	}
	e.fails = append(e.fails, f)
}

func (e *Evaluator) steps(p *Path, i int, cur Res, root interface{}, out *[]Res) {
	if i == len(p.Steps) {
		*out = append(*out, cur)
		return
	}
	s := &p.Steps[i]
	nfail := len(e.fails)
	nout := len(*out)
	none := func() bool { return len(*out) == nout && len(e.fails) == nfail }
	switch s.Kind {
	case KName:
		m, ok := cur.V.(map[string]interface{})
		if !ok {
			e.fail(i, FType, "object", cur.V)
			return
		}
		v, ok := m[s.Key]
		if !ok {
			e.fail(i, FMember, "", nil)
			return
		}
		e.steps(p, i+1, Res{V: v, Loc: Loc{Kind: LMap, Map: m, Key: s.Key}}, root, out)
	case KWild:
		switch c := cur.V.(type) {
		case map[string]interface{}:
			for _, k := range sortedKeys(c) {
				e.steps(p, i+1, Res{V: c[k], Loc: Loc{Kind: LMap, Map: c, Key: k}}, root, out)
			}
		case []interface{}:
			for idx := range c {
				e.steps(p, i+1, Res{V: c[idx], Loc: Loc{Kind: LList, List: c, Idx: idx}}, root, out)
			}
		default:
			e.fail(i, FType, "object/array", cur.V)
			return
		}
		if none() {
			e.fail(i, FMember, "", nil)
		}
	case KMulti:
		allWild := true
		for _, it := range s.Items {
			allWild = allWild && it.Wild
		}
		if l, ok := cur.V.([]interface{}); ok && allWild {
			for range s.Items {
				for idx := range l {
					e.steps(p, i+1, Res{V: l[idx], Loc: Loc{Kind: LList, List: l, Idx: idx}}, root, out)
				}
			}
			if none() {
				e.fail(i, FMember, "", nil)
			}
			return
		}
		m, ok := cur.V.(map[string]interface{})
		if !ok {
			e.fail(i, FType, "object", cur.V)
			return
		}
		for _, it := range s.Items {
			if it.Wild {
				for _, k := range sortedKeys(m) {
					e.steps(p, i+1, Res{V: m[k], Loc: Loc{Kind: LMap, Map: m, Key: k}}, root, out)
				}
				continue
			}
			if v, ok := m[it.Key]; ok {
				e.steps(p, i+1, Res{V: v, Loc: Loc{Kind: LMap, Map: m, Key: it.Key}}, root, out)
			}
		}
		if none() {
			e.fail(i, FMember, "", nil)
		}
	case KUnion:
		l, ok := cur.V.([]interface{})
		if !ok {
			e.fail(i, FType, "array", cur.V)
			return
		}
		for _, su := range s.Subs {
			for _, idx := range su.indexes(int64(len(l))) {
				e.steps(p, i+1, Res{V: l[idx], Loc: Loc{Kind: LList, List: l, Idx: int(idx)}}, root, out)
			}
		}
		if none() {
			e.fail(i, FMember, "", nil)
		}
	case KFilter:
		switch c := cur.V.(type) {
		case map[string]interface{}:
			ks := sortedKeys(c)
			members := make([]interface{}, len(ks))
			for j, k := range ks {
				members[j] = c[k]
			}
			sel := e.query(s.Q, members, root).expand(len(members))
			for j, k := range ks {
				if sel[j] {
					e.steps(p, i+1, Res{V: c[k], Loc: Loc{Kind: LMap, Map: c, Key: k}}, root, out)
				}
			}
		case []interface{}:
			sel := e.query(s.Q, c, root).expand(len(c))
			for idx := range c {
				if sel[idx] {
					e.steps(p, i+1, Res{V: c[idx], Loc: Loc{Kind: LList, List: c, Idx: idx}}, root, out)
				}
			}
		default:
			e.fail(i, FType, "object/array", cur.V)
			return
		}
		if none() {
			e.fail(i, FMember, "", nil)
		}
	case KRec:
		switch cur.V.(type) {
		case map[string]interface{}, []interface{}:
		default:
			e.fail(i, FType, "object/array", cur.V)
			return
		}
		inner := &p.Steps[i+1]
		wantMap, wantList := true, true
		switch inner.Kind {
		case KName:
			wantList = false
		case KUnion:
			wantMap = false
		}
		var walk func(n Res)
		walk = func(n Res) {
			switch c := n.V.(type) {
			case map[string]interface{}:
				if wantMap {
					e.steps(p, i+1, n, root, out)
				}
				for _, k := range sortedKeys(c) {
					walk(Res{V: c[k], Loc: Loc{Kind: LMap, Map: c, Key: k}})
				}
			case []interface{}:
				if wantList {
					e.steps(p, i+1, n, root, out)
				}
				for idx := range c {
					walk(Res{V: c[idx], Loc: Loc{Kind: LList, List: c, Idx: idx}})
				}
			}
		}
		walk(cur)
		if none() {
			e.fail(i, FMember, "", nil)
		}
	}
}

// ---- filter queries

type verdict struct {
	whole bool
	all   bool
	per   []bool
}

func (v verdict) expand(n int) []bool {
	if v.whole {
		out := make([]bool, n)
		for i := range out {
			out[i] = v.all
		}
		return out
	}
	return v.per
}

func whole(b bool) verdict { return verdict{whole: true, all: b} }

// sub-evaluations inside a filter must not leak failure events
func (e *Evaluator) quiet(p *Path, root, cur interface{}) (interface{}, bool) {
	if e.MemoRoot && p.Root == '$' {
		if m, ok := e.memo[p]; ok {
			return m.v, m.ok
		}
		v, ok := e.quietRaw(p, root, cur)
		if e.memo == nil {
			e.memo = map[*Path]opval{}
		}
		e.memo[p] = opval{v, ok}
		return v, ok
	}
	return e.quietRaw(p, root, cur)
}

func (e *Evaluator) quietRaw(p *Path, root, cur interface{}) (interface{}, bool) {
	saved := e.fails
	e.fails = nil
	start := cur
	if p.Root == '$' {
		start = root
	}
	r := e.evalFrom(p, root, start)
	e.fails = saved
	if len(r) == 0 {
		return nil, false
	}
	return r[0].V, true
}

type opval struct {
	v  interface{}
	ok bool
}

func (e *Evaluator) query(q *Query, members []interface{}, root interface{}) verdict {
	n := len(members)
	switch q.Op {
	case QParen:
		return e.query(q.L, members, root)
	case QOr, QAnd:
		l := e.query(q.L, members, root)
		// the left operand decides the outcome for every member: false everywhere for &&,
		// true everywhere for || (whether it is a whole verdict or a per-member one)
		decided := true
		for _, b := range l.expand(n) {
			if b != (q.Op == QOr) {
				decided = false
			}
		}
		if decided {
			e.OptDepth++
		}
		r := e.query(q.R, members, root)
		if decided {
			e.OptDepth--
		}
		if l.whole && r.whole {
			if q.Op == QOr {
				return whole(l.all || r.all)
			}
			return whole(l.all && r.all)
		}
		le, re := l.expand(n), r.expand(n)
		out := make([]bool, n)
		for i := range out {
			if q.Op == QOr {
				out[i] = le[i] || re[i]
			} else {
				out[i] = le[i] && re[i]
			}
		}
		return verdict{per: out}
	case QExist, QNot:
		neg := q.Op == QNot
		if q.P.Root == '$' {
			_, ok := e.quiet(q.P, root, nil)
			return whole(ok != neg)
		}
		out := make([]bool, n)
		for i, m := range members {
			_, ok := e.quiet(q.P, root, m)
			out[i] = ok != neg
		}
		return verdict{per: out}
	case QRegex:
		re := regexp.MustCompile(q.Re)
		return e.compare(Operand{P: q.P}, Operand{IsLit: true, Lit: "regex"}, members, root,
			func(v interface{}) (interface{}, bool) { s, ok := v.(string); return s, ok },
			func(l, _ interface{}) bool { return re.MatchString(l.(string)) }, false)
	case QCmp:
		lo, ro := q.LO, q.RO
		op := q.Cmp
		neg := false
		if op == "!=" {
			op, neg = "==", true
		}
		var v verdict
		if op == "==" {
			var lit *Operand
			if lo.IsLit {
				c := lo
				lit = &c
			}
			if ro.IsLit {
				c := ro
				lit = &c
			}
			if lit != nil {
				// typed by the literal; put the literal on the right
				if lo.IsLit && !ro.IsLit {
					lo, ro = ro, lo
				}
				v = e.compare(lo, ro, members, root, typer(lit.Lit), func(l, r interface{}) bool { return l == r }, false)
			} else {
				if lo.P.Root == '$' && ro.P.Root == '@' {
					lo, ro = ro, lo
				}
				v = e.compare(lo, ro, members, root,
					func(x interface{}) (interface{}, bool) { return x, true },
					func(l, r interface{}) bool { return reflect.DeepEqual(l, r) }, true)
			}
		} else {
			// ordering: numeric; per-member operand goes left, mirroring the operator
			if !ro.IsLit && ro.P.Root == '@' {
				lo, ro = ro, lo
				op = map[string]string{"<": ">", "<=": ">=", ">": "<", ">=": "<="}[op]
			}
			var cmp func(l, r interface{}) bool
			switch op {
			case "<":
				cmp = func(l, r interface{}) bool { return l.(float64) < r.(float64) }
			case "<=":
				cmp = func(l, r interface{}) bool { return l.(float64) <= r.(float64) }
			case ">":
				cmp = func(l, r interface{}) bool { return l.(float64) > r.(float64) }
			case ">=":
				cmp = func(l, r interface{}) bool { return l.(float64) >= r.(float64) }
			}
			v = e.compare(lo, ro, members, root, typer(float64(0)), cmp, false)
		}
		if neg {
			if v.whole {
				return whole(!v.all)
			}
			out := make([]bool, n)
			for i := range out {
				out[i] = !v.per[i]
			}
			return verdict{per: out}
		}
		return v
	}
	panic("bad query op")
}

func typer(lit interface{}) func(interface{}) (interface{}, bool) {
	switch lit.(type) {
	case float64:
		return func(v interface{}) (interface{}, bool) {
			switch t := v.(type) {
			case float64:
				return t, true
			case json.Number:
				f, _ := t.Float64()
				return f, true
			}
			return nil, false
		}
	case string:
		return func(v interface{}) (interface{}, bool) { _, ok := v.(string); return v, ok }
	case bool:
		return func(v interface{}) (interface{}, bool) { _, ok := v.(bool); return v, ok }
	}
	return func(v interface{}) (interface{}, bool) { return v, v == nil }
}

// compare: left may be per-member ('@') or single; right is single (literal or '$' path).
func (e *Evaluator) compare(lo, ro Operand, members []interface{}, root interface{},
	typ func(interface{}) (interface{}, bool), cmp func(l, r interface{}) bool, bothMissingHolds bool) verdict {

	single := func(o Operand) opval {
		if o.IsLit {
			v, ok := typ(o.Lit)
			return opval{v, ok}
		}
		v, ok := e.quiet(o.P, root, nil)
		if ok {
			v, ok = typ(v)
		}
		return opval{v, ok}
	}
	r := single(ro)
	if lo.IsLit || lo.P.Root == '$' {
		l := single(lo)
		if l.ok && r.ok {
			return whole(cmp(l.v, r.v))
		}
		return whole(!l.ok && !r.ok && bothMissingHolds)
	}
	n := len(members)
	ls := make([]opval, n)
	found := false
	for i, m := range members {
		v, ok := e.quiet(lo.P, root, m)
		if ok {
			v, ok = typ(v)
		}
		ls[i] = opval{v, ok}
		found = found || ok
	}
	if found && r.ok {
		out := make([]bool, n)
		for i := range out {
			out[i] = ls[i].ok && cmp(ls[i].v, r.v)
		}
		return verdict{per: out}
	}
	return whole(!found && !r.ok && bothMissingHolds)
}

// Select picks the acceptable error candidates among failure events.
func Select(fails []Fail) []Fail {
	max := -1
	for _, f := range fails {
		if f.Depth > max {
			max = f.Depth
		}
	}
	var nonType, typ []Fail
	for _, f := range fails {
		if f.Depth != max {
			continue
		}
		if f.Kind == FType {
			typ = append(typ, f)
		} else {
			nonType = append(nonType, f)
		}
	}
	if len(nonType) > 0 {
		return nonType
	}
	return typ
}
