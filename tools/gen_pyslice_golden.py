#!/usr/bin/env python3
"""Writes internal/checks/testdata/pyslice.txt.gz: what CPython's slice.indices selects.
Line: <len> <start|_> <end|_> <step|_> : <comma separated indices>   (step 0 -> nothing)"""
import gzip, itertools
small = [None] + list(range(-7, 8))
M63, M31 = 2**63, 2**31
ext = [None, -M63, -(M63 - 1), -M31] + list(range(-8, 9)) + [M31, M63 - 1]
def f(v): return '_' if v is None else str(v)
seen = set()
with gzip.open('internal/checks/testdata/pyslice.txt.gz', 'wt') as out:
    for space in (small, ext):
        for n in range(0, 7):
            for s, e, t in itertools.product(space, repeat=3):
                key = (n, s, e, t)
                if key in seen: continue
                seen.add(key)
                idx = [] if t == 0 else list(range(*slice(s, e, t).indices(n)))
                out.write(f"{n} {f(s)} {f(e)} {f(t)} : {','.join(map(str, idx))}\n")
print(len(seen))
