#!/bin/bash
# tools/ingest_seed.sh <worktree-id> <seed-name> <property-id>
# Takes the uncommitted change a sub-agent left in /tmp/seed/<worktree-id>, confirms independently that it
# (1) builds, (2) keeps the repository's own suite green, (3) makes the demonstration fail, (4) the demonstration
# passes on the unchanged tree; stores patch + demonstration under /verif/seeded/<seed-name>/ and resets the worktree.
set -u
wt=/tmp/seed/$1; name=$2; prop=$3
export GOFLAGS=-mod=mod GOPROXY=off GOSUMDB=off GOTOOLCHAIN=local
dst=/verif/seeded/$name
mkdir -p "$dst"
git -C "$wt" diff > "$dst/patch.diff"
[ -s "$dst/patch.diff" ] || { echo "no source change in $wt"; exit 1; }
demo=$(cd "$wt" && git ls-files --others --exclude-standard | grep '_test.go$' | head -1)
[ -n "$demo" ] || { echo "no demonstration test in $wt"; exit 1; }
cp "$wt/$demo" "$dst/seed_demo_test.go"
S=/tmp/seedverify.$$; rm -rf $S; mkdir -p $S
git -C /repo archive HEAD | tar -x -C $S -f - --one-top-level=clean
cp -r $S/clean $S/mut
(cd $S/mut && patch -p1 -s < "$dst/patch.diff") || { echo PATCH FAILED; exit 1; }
cp "$dst/seed_demo_test.go" $S/clean/; cp "$dst/seed_demo_test.go" $S/mut/
racef=""; grep -q "race" <<<"${RACE:-}" && racef="-race"
b=$(cd $S/mut && go build ./... 2>&1 | tail -1); [ -z "$b" ] && b=ok
suite=$(cd $S/mut && timeout 600 go test $racef -vet=off -count=1 -skip TestSeedDemo -json ./... 2>/dev/null | grep -c '"Action":"pass"')
(cd $S/mut && timeout 600 go test $racef -vet=off -count=1 -run TestSeedDemo ./... > $S/mut.out 2>&1); rc_mut=$?
(cd $S/clean && timeout 600 go test $racef -vet=off -count=1 -run TestSeedDemo ./... > $S/clean.out 2>&1); rc_clean=$?
echo "build=$b suite_pass_lines=$suite (baseline 1275) demo_on_mutant_rc=$rc_mut (want !=0) demo_on_clean_rc=$rc_clean (want 0)"
tail -5 $S/mut.out | cut -c1-200
python3 - "$dst" "$name" "$prop" "$b" "$suite" "$rc_mut" "$rc_clean" <<'PY'
import json,sys
dst,name,prop,b,suite,rm,rc=sys.argv[1:]
meta={"name":name,"property":prop,"build":b,"suite_pass_lines_with_change":int(suite),"baseline_pass_lines":1275,
      "demo_fails_with_change":int(rm)!=0,"demo_passes_without_change":int(rc)==0,
      "needs_to_manifest":"(fill in)","ran":["go build ./...","go test -vet=off -count=1 -skip TestSeedDemo ./... (with change)","go test -run TestSeedDemo (with change: must fail)","go test -run TestSeedDemo (unchanged tree: must pass)"],
      "detected_by":[], "missed_by_before_strengthening":[]}
json.dump(meta,open(dst+"/meta.json","w"),indent=1)
PY
rm -rf $S
(cd "$wt" && git checkout -q -- . && git clean -fdq)
