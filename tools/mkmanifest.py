#!/usr/bin/env python3
"""Regenerates /verif/MANIFEST.json from the table below (run from /verif)."""
import json, subprocess, sys

BUILT = sys.argv[1:]  # ids that are claimed; others go to not_applicable with a "not built yet" reason

hook_commits = subprocess.run(["git", "-C", "/repo", "log", "--format=%H", "--grep=^verif hooks"],
                              capture_output=True, text=True).stdout.split()

CHECKS = {
 "C01": ("differential monitor: library vs independent executable specification (SPEC) on systematic + random (path, document) pairs",
         "exploration", "Observed agreement with SPEC on every executed case (values, order, multiplicity, success/failure). Systematic enumeration makes the step-kind adjacency and comparator matrices complete; deeper shapes are random. Not a proof.",
         "SPEC reads the intended semantics; standard deterministic user functions; sampling beyond the enumerated shapes", "4/C01"),
}

def entry(pid):
    tech, cat, text, note, ref = CHECKS[pid]
    return {
        "property_id": pid,
        "quick_cmd": f"./check.sh {pid} quick",
        "thorough_cmd": f"./check.sh {pid} thorough",
        "evidence_file": f"/verif/evidence/{pid}.json",
        "replay_cmd_template": "./check.sh replay {path}",
        "engine": "vcheck",
        "level_claimed": {"category": cat, "text": text, "design_ref": "DESIGN.md §" + ref},
        "level_note": note,
        "technique": tech,
    }

props = [json.loads(l)["id"] for l in open("properties.jsonl")]
claimed = [p for p in props if p in CHECKS and (not BUILT or p in BUILT)]
manifest = {
    "version": 1,
    "setup_cmd": "./check.sh build",
    "hooks": {
        "guard": "verif",
        "enable": "go build -tags verif (check.sh builds cmd/vcheck, which links /repo through a replace directive, with -tags verif; -race variant for C04/C06)",
        "baseline_off_cmd": "cd /repo && GOFLAGS=-mod=mod GOPROXY=off GOSUMDB=off GOTOOLCHAIN=local go test -vet=off -count=1 ./...",
        "source_commits": hook_commits,
        "add_only": True,
    },
    "engines": [{
        "name": "vcheck", "path": "/verif/cmd/vcheck",
        "serves_properties": claimed,
        "kind_free_text": "runtime monitors: parent process shards a seeded case list over expendable worker processes that call the real library (hooks on) and compare observations with reference-model / relational / history / snapshot oracles; crash and hang detection with re-confirmation in isolation; Go race detector build for the concurrency properties",
    }],
    "checks": [entry(p) for p in claimed],
    "notes": "All checks: ./check.sh <id> <quick|thorough>; VERIF_SEED selects the random part. Known findings: /verif/KNOWN_FINDINGS.txt (only `fixed:` entries: the 13 defects found were repaired by fix: commits in /repo).",
    "not_applicable": [{"property_id": p, "reason": "monitor not built yet (work in progress; the design in DESIGN.md covers it)"} for p in props if p not in claimed],
}
json.dump(manifest, open("MANIFEST.json", "w"), indent=1)
print("claimed:", claimed)
