#!/usr/bin/env python3
"""Regenerates /verif/MANIFEST.json from the table below (run from /verif)."""
import json, subprocess, sys

BUILT = sys.argv[1:]  # ids that are claimed; others go to not_applicable with a "not built yet" reason

hook_commits = subprocess.run(["git", "-C", "/repo", "log", "--format=%H", "--grep=^verif hooks"],
                              capture_output=True, text=True).stdout.split()

HELD = "Held on every execution observed (counts, coverage cells and samples in the evidence file); nothing is proved. "
CHECKS = {
 "C01": ("differential runtime monitor: real library vs independent executable specification (SPEC) on systematic + seeded random (path, document) pairs",
         "exploration", HELD + "Systematic enumeration makes the step-kind adjacency and comparator x operand-kind matrices complete by construction (required cells are checked); deeper shapes are random.",
         "SPEC reads the intended semantics (cross-checked by the oracle-free relations C08/C09/C10/C18); standard deterministic user functions", "4/C01"),
 "C02": ("isolated-worker totality monitor on Parse: panic / process death / hang / (f,err) contract over 9 hostile string generators x 3 configurations",
         "exploration", HELD + "A crash or hang of the worker process is observed by the parent and confirmed by re-running the culprit alone in a fresh process.",
         "bounded time = returned before a 10 s watchdog, measured inside the library call (confirmed 2 x 45 s alone in fresh processes); strings <= 256 characters", "4/C02"),
 "C03": ("isolated-worker totality monitor on evaluation: panic / death / hang / (res,err) contract, FunctionFailed only with a failing user function, pool-poison hook",
         "exploration", HELD + "Paths come from the hostile generators filtered to those that parse plus ASTs with integer literals at +-2^31 / +-2^63; documents include non-JSON leaves.",
         "bounded time as for C02; recording user functions", "4/C03"),
 "C04": ("snapshot monitor (leaf types + container identities before/after every call, plain and accessor mode) and Go race detector on documents shared between goroutines",
         "exploration", HELD + "The race part only counts reports on the memory of the shared documents.",
         "user functions do not modify their arguments; races = those that happened on the observed interleavings", "4/C04"),
 "C05": ("history monitor: call k of one parsed function vs fresh Retrieve, earlier result slices re-read and scribbled, pool-poison / canary / tree-fingerprint hooks",
         "exploration", HELD + "Histories flip filter outcomes between consecutive documents, include failing calls, a panicking user function and unrelated calls that recycle pooled buffers.",
         "sync.Pool reuse in one goroutine recycles buffers (hook counters report it); fresh Retrieve defines the history-free answer", "4/C05"),
 "C06": ("Go race detector + per-operation sequential-result oracle over a mixed Parse / shared-function / Retrieve workload, 2..16 goroutines, yield injection at hooks",
         "exploration", HELD + "Evidence reports operations, maximum evaluations in flight, evaluations overlapping a Parse and the race reports seen.",
         "race detector sees only races that happened; schedules = those produced by the Go scheduler under yield injection on this machine", "4/C06"),
 "C07": ("repetition monitor: same path on independently built equal maps interleaved with pool-recycling calls vs sort.Strings / pre-order / written order; key-scramble and key-poison hooks",
         "exploration", HELD, "byte-wise order = Go string order; scramble hook forces adversarial input to the library's sort", "4/C07"),
 "C08": ("relational monitor: Retrieve(P.Q) vs concatenation of Retrieve($.Q, v) for v in Retrieve(P) at every split point - three real retrievals, no reference model",
         "exploration", HELD, "Q without $-rooted operand or aggregate, as the property states", "4/C08"),
 "C09": ("relational monitor on selected-member sets: && = intersection, || = union, ! = complement, != vs ==, mirrored operators, <= = < union ==; oracle-free",
         "exploration", HELD, "members pairwise non-DeepEqual so a value identifies its member", "4/C09"),
 "C10": ("paired decode monitor (float64 vs json.Number) + explicit type-strictness model per selected member + SPEC in both decode modes",
         "exploration", HELD, "number texts are Go's shortest formatting; path == path with a user-function output on one side is outside the quantifier", "4/C10"),
 "C11": ("exhaustive enumeration of the stated finite slice/index space against a table produced by CPython's slice.indices",
         "exploration", "Exhaustive for the stated finite space (85,169 slices x spellings, all listed indices): evidence sets exhaustive=true. Outside that space nothing is claimed.",
         "CPython slice.indices defines a Python slice; the table is committed and reproducible with tools/gen_pyslice_golden.py", "4/C11"),
 "C12": ("paired-mode monitor: accessor mode vs plain mode with identical recording user functions (results, errors, per-function argument logs)",
         "exploration", HELD, "recording wrappers around the standard function set", "4/C12"),
 "C13": ("Set/Get monitor: per result index Set a sentinel on a fresh copy and diff the whole document against SPEC's predicted location; liveness of Get",
         "exploration", HELD, "SPEC's result locations define the selected location", "4/C13"),
 "C14": ("call-log monitor: per function occurrence the ordered argument log vs SPEC's call protocol; argument-slice scribbling by the user function",
         "exploration", HELD, "calls inside the right operand of a && / || already decided by its left operand may be skipped (either behaviour accepted)", "4/C14"),
 "C15": ("error monitor: library error vs SPEC's failure-event candidate set at the deepest failing depth (exact for single-valued paths)",
         "exploration", HELD, "SPEC's failure events define a failure that really occurs at a step; README error text formats", "4/C15"),
 "C16": ("key monitor: up to 11 spellings of random Unicode keys among near-miss siblings vs direct map lookup",
         "exploration", HELD, "keys are valid UTF-8; JSON-style escaping in brackets, backslash-escaped symbols in dot notation", "4/C16"),
 "C17": ("translation validation by co-execution: generated parser vs an independent interpreter executing /repo/jsonpath.peg itself, restriction oracle, position/near check",
         "translation_validation", "Every string is parsed by both parsers and the verdicts compared (accept/reject, error class, offset, near). Language equality is decided only on the strings tried; grammar-derived strings exercise every character-class boundary.",
         "/repo/jsonpath.peg is the published grammar; PEGI implements PEG semantics for the syntax subset the file uses", "4/C17"),
 "C18": ("relational monitor: canonical rendering vs 3..6 random spellings of one AST (spaces, quotes, integer spelling, .*/[*], .name/['name'], omitted $), plus the same raw text between single and double quotes as a name and as a filter string literal, and multi-digit integers with + / leading zeros",
         "exploration", HELD, "the renderer's list of insignificant variations is the property's list", "4/C18"),
 "C19": ("history monitor over Parse sequences vs the same call made first in a fresh child process; Config mutated after Parse; parser-residue hook",
         "exploration", HELD, "first call of a fresh process = history-free meaning of Parse(path, config)", "4/C19"),
 "C20": ("SPEC differential + no-panic monitor on documents whose leaves are 29 kinds of non-JSON Go values",
         "exploration", HELD, "SPEC treats everything except map[string]interface{} and []interface{} as a leaf", "4/C20"),
}

def entry(pid):
    tech, cat, text, note, ref = CHECKS[pid]
    return {
        "property_id": pid,
        "quick_cmd": f"./check.sh {pid} quick",
        "thorough_cmd": f"./check.sh {pid} thorough",
        "evidence_file": f"/verif/evidence/{pid}.json",
        "replay_cmd_template": "./check.sh replay {path}",
        "engine": "vcheck",
        "level_claimed": {"category": cat, "text": text, "design_ref": "DESIGN.md §" + ref},
        "level_note": note,
        "technique": tech,
    }

props = [json.loads(l)["id"] for l in open("properties.jsonl")]
claimed = [p for p in props if p in CHECKS and (not BUILT or p in BUILT)]
manifest = {
    "version": 1,
    "setup_cmd": "./check.sh build",
    "hooks": {
        "guard": "verif",
        "enable": "go build -tags verif (check.sh builds cmd/vcheck, which links /repo through a replace directive, with -tags verif; -race variant for C04/C06)",
        "baseline_off_cmd": "cd /repo && GOFLAGS=-mod=mod GOPROXY=off GOSUMDB=off GOTOOLCHAIN=local go test -vet=off -count=1 ./...",
        "source_commits": hook_commits,
        "add_only": True,
    },
    "engines": [{
        "name": "vcheck", "path": "/verif/cmd/vcheck",
        "serves_properties": claimed,
        "kind_free_text": "runtime monitors: parent process shards a seeded case list over expendable worker processes that call the real library (hooks on) and compare observations with reference-model / relational / history / snapshot oracles; crash and hang detection with re-confirmation in isolation; Go race detector build for the concurrency properties",
    }],
    "checks": [entry(p) for p in claimed],
    "notes": "All checks: ./check.sh <id> <quick|thorough>; VERIF_SEED selects the random part. Known findings: /verif/KNOWN_FINDINGS.txt (only `fixed:` entries: the 13 defects found were repaired by fix: commits in /repo).",
    "not_applicable": [{"property_id": p, "reason": "monitor not built yet (work in progress; the design in DESIGN.md covers it)"} for p in props if p not in claimed],
}
json.dump(manifest, open("MANIFEST.json", "w"), indent=1)
print("claimed:", claimed)
