#!/bin/bash
# tools/mutant.sh <name> <patch-file | -R:<commit>> [check ids...]
# Applies a change to a scratch copy of /repo (never to /repo itself), verifies that it builds and
# that the repository's own suite still passes, runs the given checks (default: all) against the copy
# and prints which ones report a violation. The scratch copy is removed afterwards.
set -u
name=$1; patch=$2; shift 2
checks=${*:-C01 C02 C03 C04 C05 C06 C07 C08 C09 C10 C11 C12 C13 C14 C15 C16 C17 C18 C19 C20}
export GOFLAGS=-mod=mod GOPROXY=off GOSUMDB=off GOTOOLCHAIN=local
S=${MUTANT_ROOT:-/tmp/mutants}/$name
rm -rf "$S"; mkdir -p "$S"
git -C /repo archive HEAD | tar -x -C "$S" -f - --one-top-level=repo
case "$patch" in
  -R:*) git -C /repo show "${patch#-R:}" | (cd "$S/repo" && patch -R -p1 -s) || { echo "$name: PATCH FAILED"; exit 2; } ;;
  *)    (cd "$S/repo" && patch -p1 -s < "$patch") || { echo "$name: PATCH FAILED"; exit 2; } ;;
esac
(cd "$S/repo" && go build ./... ) || { echo "$name: DOES NOT BUILD"; rm -rf "$S"; exit 2; }
if [ "${SKIP_SUITE:-0}" != 1 ]; then
  n=$(cd "$S/repo" && timeout 300 go test -vet=off -count=1 -json ./... 2>/dev/null | grep -c '"Action":"pass"')
  suite="suite=$n/1275"
else suite="suite=skipped"; fi
det=""; miss=""
for id in $checks; do
  VERIF_REPO="$S/repo" VERIF_OUT="$S/out" timeout 1800 ${VERIF_SRC:-/verif}/check.sh $id ${TIER:-quick} > "$S/$id.log" 2>&1
  rc=$?
  if grep -aq "^VIOLATION property=$id" "$S/$id.log"; then det="$det $id"; elif [ $rc -ne 0 ]; then miss="$miss $id(rc=$rc)"; else miss="$miss $id"; fi
done
echo "$name: $suite DETECTED:[$det ] silent:[$miss ]"
mkdir -p ${MUTANT_ROOT:-/tmp/mutants}/logs; for id in $checks; do if grep -aq "^VIOLATION" "$S/$id.log"; then grep -a -A2 -m1 "^VIOLATION" "$S/$id.log" | cut -c1-300 > ${MUTANT_ROOT:-/tmp/mutants}/logs/$name.$id.txt; fi; done
rm -rf "$S"
