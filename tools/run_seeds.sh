#!/bin/bash
# tools/run_seeds.sh [seed-name...]  - runs every check (quick tier) against every seeded change (on scratch copies,
# never on /repo), writes seeded/RESULTS.txt and fills detected_by / silent in each meta.json.
cd /verif
names=${*:-$(ls seeded | grep -v RESULTS)}
for n in $names; do
  [ -f seeded/$n/patch.diff ] || continue
  line=$(SKIP_SUITE=1 tools/mutant.sh $n /verif/seeded/$n/patch.diff 2>&1 | grep "^$n:")
  echo "$line"
  python3 - "$n" "$line" <<'PY'
import json,sys,re
n,line=sys.argv[1],sys.argv[2]
m=re.search(r'DETECTED:\[(.*?)\] silent:\[(.*?)\]',line)
meta=json.load(open('/verif/seeded/%s/meta.json'%n))
meta['detected_by']=m.group(1).split() if m else []
meta['silent']=m.group(2).split() if m else []
meta['own_property_detected']=meta['property'] in meta['detected_by']
json.dump(meta,open('/verif/seeded/%s/meta.json'%n,'w'),indent=1)
PY
done | tee -a seeded/RESULTS.txt
