#!/bin/bash
# tools/run_seeds.sh [seed-name...]  - runs every check (quick tier) against every seeded change (on scratch copies,
# never on /repo), writes seeded/RESULTS.txt and fills detected_by / silent in each meta.json (silent = run and silent;
# checks that were not run for a seed appear in neither list).
cd /verif
names=${*:-$(ls seeded | grep -v RESULTS)}
for n in $names; do
  [ -f seeded/$n/patch.diff ] || continue
  # CHECKS="C01 C14 ..." limits the checks that are run (the seed's own property is always among them); default: all twenty
  own=$(python3 -c "import json;print(json.load(open('/verif/seeded/$n/meta.json'))['property'])")
  list=""
  if [ -n "${CHECKS:-}" ]; then list=$(echo "$own $CHECKS" | tr ' ' '\n' | sort -u | tr '\n' ' '); fi
  line=$(SKIP_SUITE=1 tools/mutant.sh $n /verif/seeded/$n/patch.diff $list 2>&1 | grep "^$n:")
  echo "$line"
  python3 - "$n" "$line" <<'PY'
import json,sys,re
n,line=sys.argv[1],sys.argv[2]
m=re.search(r'DETECTED:\[(.*?)\] silent:\[(.*?)\]',line)
meta=json.load(open('/verif/seeded/%s/meta.json'%n))
meta['detected_by']=m.group(1).split() if m else []
meta['silent']=m.group(2).split() if m else []
meta['own_property_detected']=meta['property'] in meta['detected_by']
json.dump(meta,open('/verif/seeded/%s/meta.json'%n,'w'),indent=1)
PY
done | tee -a seeded/RESULTS.txt
