#!/usr/bin/env python3
"""Prints the markdown table of seeded changes (from seeded/*/meta.json) for DESIGN.md §10."""
import json, glob, os
rows = []
for f in sorted(glob.glob('/verif/seeded/*/meta.json')):
    m = json.load(open(f))
    rows.append((m['property'], m['name'], m.get('needs_to_manifest', ''), ' '.join(m.get('detected_by', [])),
                 'yes' if m.get('own_property_detected') else 'NO', m.get('strengthened', '')))
print('| property | seeded change (`seeded/<name>/`) | needs, to manifest | own check fires | all checks that fire (quick tier) | strengthening it triggered |')
print('|---|---|---|---|---|---|')
for p, n, need, det, own, st in rows:
    print(f'| {p} | `{n}` | {need} | {own} | {det} | {st} |')
