#!/usr/bin/env python3
"""Prints the markdown table of seeded changes (from seeded/*/meta.json) for DESIGN.md §10."""
import json, glob
rows = []
for f in sorted(glob.glob('/verif/seeded/*/meta.json')):
    m = json.load(open(f))
    det = m.get('detected_by', [])
    ran = len(det) + len(m.get('silent', []))
    fired = ' '.join(det)
    if ran < 20:
        fired += f' (of {ran} run)'
    rows.append((m['property'], m['name'], m.get('needs_to_manifest', ''), fired,
                 'yes' if m.get('own_property_detected') else 'NO', m.get('strengthened', '')))
print('| property | seeded change (`seeded/<name>/`) | needs, to manifest | own check fires | checks that fire (quick tier; all twenty were run unless noted) | strengthening it triggered |')
print('|---|---|---|---|---|---|')
for p, n, need, det, own, st in rows:
    print(f'| {p} | `{n}` | {need} | {own} | {det} | {st} |')
