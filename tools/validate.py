#!/usr/bin/env python3
"""Validates MANIFEST.json and every evidence file against the schemas (needs jsonschema: run with python3-vt)."""
import json, glob, sys, jsonschema
ok = True
def check(path, schema):
    global ok
    try:
        jsonschema.validate(json.load(open(path)), json.load(open(schema)))
        print("valid  ", path)
    except Exception as e:
        ok = False
        print("INVALID", path, str(e)[:300])
check('/verif/MANIFEST.json', '/root/.vp/MANIFEST.schema.json')
for f in sorted(glob.glob('/verif/evidence/*.json')):
    check(f, '/root/.vp/EVIDENCE.schema.json')
sys.exit(0 if ok else 1)
